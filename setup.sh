#!/bin/sh
# MANIFEST setup_cmd: offline; makes sure the check interpreter can import hypothesis.
HERE="$(cd "$(dirname "$0")" && pwd)"
cd "$HERE" || exit 1
PY=/venv/bin/python
[ -x "$PY" ] || PY=python3
if ! PYTHONPATH="$HERE/.deps" "$PY" -c "import hypothesis" 2>/dev/null; then
  mkdir -p "$HERE/.deps"
  "$PY" -m pip install --no-index --find-links /opt/veriftools/wheels --target "$HERE/.deps" hypothesis || exit 1
fi
# optional: atheris for the coverage-guided supplement of C01's thorough tier (skipped there if unavailable)
if ! PYTHONPATH="$HERE/.deps" "$PY" -c "import atheris" 2>/dev/null; then
  mkdir -p "$HERE/.deps"
  "$PY" -m pip install --no-index --find-links /opt/veriftools/wheels --target "$HERE/.deps" atheris >/dev/null 2>&1 || echo "note: atheris not installed (C01 thorough supplement will be skipped)"
fi
PYTHONPATH="/repo/src:$HERE:$HERE/.deps" "$PY" - <<'PY' || exit 1
import hypothesis, polars, pydantic, PIL, rtflite
from vf import refdata
refdata.verify()
print("setup ok: hypothesis", hypothesis.__version__)
PY
PYTHONPATH="/repo/src:$HERE:$HERE/.deps" PYTHONHASHSEED=0 "$PY" "$HERE/tools/selftest_reader.py" || exit 1
mkdir -p "$HERE/evidence" "$HERE/replays/out" "$HERE/.work"
