#!/usr/bin/env python3
"""Regenerate MANIFEST.json from the table below (keeps it valid at all times)."""
import json, os
HERE = os.path.dirname(os.path.dirname(os.path.abspath(__file__)))
IDS = [json.loads(l)["id"] for l in open(os.path.join(HERE, "properties.jsonl"))]

# id -> (level category, level text, level note, technique)
CLAIMS = {}
exec(open(os.path.join(HERE, "tools", "claims.py")).read())

checks = []
for pid in IDS:
    if pid not in CLAIMS:
        continue
    cat, text, note, tech = CLAIMS[pid]
    checks.append({
        "property_id": pid,
        "quick_cmd": f"./check {pid} quick",
        "thorough_cmd": f"./check {pid} thorough",
        "evidence_file": f"evidence/{pid}.json",
        "replay_cmd_template": f"./check {pid} --replay {{path}}",
        "engine": "vf",
        "level_claimed": {"category": cat, "text": text, "design_ref": f"DESIGN.md section 4, {pid}"},
        "level_note": note,
        "technique": tech,
    })
manifest = {
    "version": 1,
    "setup_cmd": "./setup.sh",
    "hooks": {
        "guard": "RTFLITE_VERIF",
        "enable": "no source hooks are needed: checks import rtflite fresh from $VERIF_REPO/src (default /repo/src) in every check process and observe return values, files on disk, and sys.settrace events owned by the harness",
        "baseline_off_cmd": "cd /repo && /venv/bin/python -m pytest -ra -q -p no:cacheprovider --timeout=900 --continue-on-collection-errors",
        "source_commits": [],
        "add_only": True,
    },
    "engines": [{
        "name": "vf", "path": "vf/engine.py", "serves_properties": [c["property_id"] for c in checks],
        "kind_free_text": "property-based testing / fuzzing: Hypothesis strategies and state machines, exhaustive enumeration of finite sub-domains, harness-owned schedules and fault points; seeded collect -> bucket -> shrink loop over JSON cases; independent RTF reader as oracle substrate",
    }],
    "checks": checks,
    "not_applicable": [{"property_id": p, "reason": NOT_YET.get(p, "check not built yet (work in progress; the technique applies, see DESIGN.md section 4)")}
                       for p in IDS if p not in CLAIMS],
    "notes": "Every claimed property is decided by generated-input search against an explicit oracle (DESIGN.md). KNOWN_FINDINGS.txt lists genuine defects (repaired: 'fixed:' lines; open: 'finding:' lines).",
}
json.dump(manifest, open(os.path.join(HERE, "MANIFEST.json"), "w"), indent=1)
print("MANIFEST.json written:", len(checks), "checks")
