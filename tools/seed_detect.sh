#!/bin/sh
# tools/seed_detect.sh <seeded-dir-name> [tier] [PID ...]: apply the change in a scratch worktree of /repo HEAD and run the check(s)
NAME="$1"; TIER="${2:-quick}"; shift; shift
PID=$(echo "$NAME" | cut -d- -f1)
CHECKS="${*:-$PID}"
WT=/tmp/vs/det_$NAME
rm -rf "$WT"; git -C /repo worktree prune
git -C /repo worktree add --detach -q "$WT" HEAD || exit 2
if ! git -C "$WT" apply "/verif/seeded/$NAME/patch.diff" 2>/tmp/vs/det_$NAME.apply.log; then
  if ! (cd "$WT" && patch -p1 --fuzz=3 < "/verif/seeded/$NAME/patch.diff" >/tmp/vs/det_$NAME.apply.log 2>&1); then
    echo "$NAME apply=FAILED"; git -C /repo worktree remove --force "$WT"; exit 1; fi
fi
for C in $CHECKS; do
  S=$(date +%s)
  VERIF_REPO="$WT" /verif/check "$C" "$TIER" > /tmp/vs/det_$NAME.$C.log 2>&1; RC=$?
  E=$(date +%s)
  SIG=$(grep -m2 "signature=" /tmp/vs/det_$NAME.$C.log | sed 's/ occurrences.*//' | tr '\n' ';' | cut -c1-160)
  echo "$NAME check=$C tier=$TIER rc=$RC wall=$((E-S))s $SIG"
done
git -C /repo worktree remove --force "$WT"
