"""Reader self-test: (1) every complete RTF document shipped in the repository parses without lexical / structural
anomalies; (2) a Hypothesis round-trip against a tiny independent writer of the reader's own model."""
import glob
import sys

from hypothesis import HealthCheck, given, seed, settings
from hypothesis import strategies as st

from vf.rtfread import Para, Row, read

files = glob.glob("/repo/tests/__r_snapshots__/**/*.rtf", recursive=True) + glob.glob("/repo/tests/fixtures/docs_outputs/*.rtf") \
    + glob.glob("/repo/docs/**/*.rtf", recursive=True)
ok = bad = 0
for f in files:
    d = read(open(f, "rb").read())
    if d.ok():
        ok += 1
    elif not d.starts_with_rtf1:
        pass                      # row / cell / paragraph fragments, not documents
    else:
        bad += 1
        print("reader anomaly on", f, d.lex[:2], d.anom[:2])
if bad or ok < 50:
    print(f"reader self-test failed: ok={ok} bad={bad}")
    sys.exit(1)


def esc(s):
    out = []
    for ch in s:
        cp = ord(ch)
        if ch in "\\{}":
            out.append("\\" + ch)
        elif cp < 128:
            out.append(ch)
        else:
            for u in ([cp] if cp <= 0xFFFF else [0xD800 + ((cp - 0x10000) >> 10), 0xDC00 + ((cp - 0x10000) & 0x3FF)]):
                out.append("\\u%d?" % (u - 65536 if u >= 32768 else u))
    return "".join(out)


text = st.text(alphabet=st.characters(min_codepoint=0x20, max_codepoint=0x10FFFF, blacklist_categories=("Cs", "Cc")), max_size=12)
block = st.one_of(st.tuples(st.just("para"), text), st.tuples(st.just("row"), st.lists(text, min_size=1, max_size=4)))


@seed(1)
@settings(max_examples=400, database=None, deadline=None, suppress_health_check=list(HealthCheck))
@given(st.lists(st.lists(block, max_size=4), min_size=1, max_size=3))
def roundtrip(pages):
    parts = ["{\\rtf1\\ansi\\deff0{\\fonttbl{\\f0\\froman\\fcharset0 Times;}}{\\colortbl;\\red255\\green0\\blue0;}"]
    for pi, pg in enumerate(pages):
        if pi:
            parts.append("\\page ")
        for kind, payload in pg:
            if kind == "para":
                parts.append("{\\pard\\ql\\fs18{\\f0 " + esc(payload) + "}\\par}")
            else:
                parts.append("\\trowd\\trgaph108" + "".join(f"\\clbrdrt\\brdrs\\brdrw15\\cellx{1000 * (i + 1)}" for i in range(len(payload))))
                parts += ["\\pard\\ql\\fs18{\\f0 " + esc(t) + "}\\cell" for t in payload]
                parts.append("\\intbl\\row\\pard")
    parts.append("}")
    d = read("".join(parts))
    assert d.ok(), (d.lex, d.anom)
    assert len(d.pages) == len(pages)
    for got, want in zip(d.pages, pages):
        got = [b for b in got if not (isinstance(b, Para) and b.text == "")]
        want = [w for w in want if not (w[0] == "para" and w[1] == "")]
        assert len(got) == len(want), (got, want)
        for g, (kind, payload) in zip(got, want):
            if kind == "para":
                assert isinstance(g, Para) and g.text == payload, (g.text, payload)
            else:
                assert isinstance(g, Row) and [c.text for c in g.cells] == payload
                assert [c.cellx for c in g.cells] == [1000 * (i + 1) for i in range(len(payload))]
                assert all(c.borders["t"]["style"] == "single" for c in g.cells)


roundtrip()
print(f"reader self-test ok: {ok} repository documents parsed, writer/reader round-trip passed")
