#!/bin/sh
# tools/quiet.sh <seed...>: run every quick check at the given seeds on the unchanged tree; print anything that is not rc=0
for sd in "$@"; do
  for p in C01 C02 C03 C04 C05 C06 C07 C08 C09 C10 C11 C12 C13 C14 C15 C16 C17 C18 C19 C20; do
    VERIF_SEED=$sd /verif/check $p quick > /tmp/vs/quiet_$p.$sd.log 2>&1; rc=$?
    echo "seed=$sd $p rc=$rc $(grep -E '^\[' /tmp/vs/quiet_$p.$sd.log | sed 's/.*evaluations/evaluations/' | cut -c1-110)"
    [ $rc -ne 0 ] && grep -E "VIOLATION|signature|HARNESS" /tmp/vs/quiet_$p.$sd.log | head -4
  done
done
