NOT_YET = {}
_EXPL = "Generated-input search against an explicit oracle; holds on everything explored (exhaustive sub-spaces are named in the evidence), no claim of absence."
_READER = "Trusts the independent RTF reader (vf/rtfread.py, validated on the repository's 92 complete RTF files and a reader/writer round-trip) and the sentinel-tag classification of rows."
CLAIMS["C02"] = ("exploration",
    "Hypothesis-generated documents plus an exhaustive rows x nrow x strategy sweep, round-trip oracle through an independent RTF reader (both directions: nothing missing, nothing extra, order, text). " + _EXPL,
    _READER + " ASCII text only (C10 owns Unicode).",
    "property-based testing: Hypothesis-generated recipes + exhaustive sweep, round-trip oracle via independent RTF reader")
CLAIMS["C01"] = ("exploration",
    "Universal document strategy (tables, multi-section, figures; all optional components, header modes, placements, strategies, attribute shapes, half-point sizes) plus an exhaustive skeleton sweep; oracle = encode succeeds (ValueError only for reference-non-contiguous group_by) and the independent reader finds one balanced {\\rtf1 group, no lexical error, #cellx==#cell per row with positive non-decreasing boundaries. " + _EXPL,
    _READER,
    "property-based testing / fuzzing: Hypothesis universal document generator + skeleton enumeration, validity predicate from an independent RTF lexer/reader")
