NOT_YET = {}
_EXPL = "Generated-input search against an explicit oracle; holds on everything explored (exhaustive sub-spaces are named in the evidence), no claim of absence."
_READER = "Trusts the independent RTF reader (vf/rtfread.py, validated on the repository's 92 complete RTF files and a reader/writer round-trip) and the sentinel-tag classification of rows."
CLAIMS["C02"] = ("exploration",
    "Hypothesis-generated documents plus an exhaustive rows x nrow x strategy sweep, round-trip oracle through an independent RTF reader (both directions: nothing missing, nothing extra, order, text). " + _EXPL,
    _READER + " ASCII text only (C10 owns Unicode).",
    "property-based testing: Hypothesis-generated recipes + exhaustive sweep, round-trip oracle via independent RTF reader")
CLAIMS["C01"] = ("exploration",
    "Universal document strategy (tables, multi-section, figures; all optional components, header modes, placements, strategies, attribute shapes, half-point sizes) plus an exhaustive skeleton sweep; oracle = encode succeeds (ValueError only for reference-non-contiguous group_by) and the independent reader finds one balanced {\\rtf1 group, no lexical error, #cellx==#cell per row with positive non-decreasing boundaries. " + _EXPL,
    _READER,
    "property-based testing / fuzzing: Hypothesis universal document generator + skeleton enumeration, validity predicate from an independent RTF lexer/reader")
CLAIMS["C06"] = ("exploration",
    "Exhaustive placement product (27 placements x footnote/source forms x pageby_header x strategy x header mode x 1/2/3/5+ pages; quick = seeded slice) plus Hypothesis-generated tables and figure documents with random geometry; validity predicate over the parsed per-page role sequence, restated geometry and \\header/\\footer counts. " + _EXPL,
    _READER, "property-based testing: exhaustive configuration product + Hypothesis documents, per-page validity predicate on independently parsed output")
CLAIMS["C19"] = ("exploration",
    "Exhaustive enumeration of the position of an illegal value inside scalar / flat / per-row / nested forms (shapes up to 3x3) for every validated field of every component class, plus Hypothesis-generated illegal values, shapes and fillers; oracle = ValueError (FileNotFoundError for a missing figure) and the legal control constructs. " + _EXPL,
    "Legal value sets are taken from the documentation/constants of the pinned tree.",
    "property-based testing: exhaustive position enumeration + Hypothesis illegal values, exception-type oracle with legal control")
CLAIMS["C20"] = ("exploration",
    "Hypothesis-generated (text, appended char, font, two sizes, dpi, unsupported font/unit) cases plus an exhaustive single-character x font sweep; algebraic and metamorphic relations from the statement with stated tolerances. " + _EXPL,
    "Frozen font-number -> name table; tolerances 1e-9 relative (one float multiplication) and 1 % (statement).",
    "property-based testing: Hypothesis inputs, algebraic/metamorphic relations as oracle")
CLAIMS["C12"] = ("exploration",
    "Exhaustive over the 657 colours (as text and background colour in body matrices and on text components of single-table, multi-section and figure documents) and the 10 fonts on every component, plus Hypothesis-generated documents with random palettes and attribute shapes, a fifth of them with a history (rendered before some components had their colours, coloured in place or via model_copy, rendered again); oracle resolves every parsed \\cf \\cb \\chcbpat \\brdrcf \\f through the parsed \\colortbl / \\fonttbl and compares with frozen reference tables per sentinel-tagged element. " + _EXPL,
    _READER + " Frozen colour and font tables (data/*.json, sha256-pinned).",
    "property-based testing: exhaustive colour/font enumeration + Hypothesis palettes, reference-table oracle on independently parsed output")
CLAIMS["C14"] = ("exploration",
    "Model-based generation of call histories (construct with/without shared component objects, encode, failing encode, encode interrupted by an outside fault, encode twice; indices modulo the live pool) over 31 document archetypes and pairs / triples of generated documents (in-place setting changes and re-written figure files included), exhaustive for histories of length <=2 over archetype x sharing menu; differential oracle against a freshly spawned interpreter encoding an equal-valued unshared document, plus repeat-call equality and DataFrame immutability. " + _EXPL,
    "Equal-valued = same constructor arguments; the baseline interpreter is spawned per distinct recipe and cached for the run.",
    "property-based testing over histories: Hypothesis op-sequence strategy + exhaustive short histories, differential oracle vs fresh interpreter")
CLAIMS["C15"] = ("exploration",
    "The harness owns the schedule: a baton scheduler driven by sys.settrace call events gives deterministic interleavings; schedules in freshly spawned interpreters cover the calls only a cold process makes; every single-preemption schedule at every rtflite call boundary is enumerated for the listed document pairs (quick also: two-preemption grids for 8 key pairs and line-level preemption for the twin pair; thorough: all ordered pairs and line-level preemption inside the modules holding global state or shared helpers), Hypothesis draws 2-3 preemption / 3-thread schedules; oracle = each thread's string equals the sequential result. " + _EXPL,
    "Preemption granularity is rtflite function calls (lines in color_service.py / registry.py in thorough); C code in polars/pydantic is atomic under this scheduler.",
    "schedule enumeration + Hypothesis-generated schedules under a harness-owned deterministic scheduler, differential oracle vs sequential run")
CLAIMS["C08"] = ("exploration",
    "Hypothesis-generated tables (1-12 columns, float relative widths, col_width 2-12 in, all header modes, 1-3 removed columns at any position, table footnote/source, multi-section) including a history dimension (body/header objects first used by a document with another column count); oracle on parsed \\cellx with an exact rational reference and 1-twip tolerance. " + _EXPL,
    _READER, "property-based testing: Hypothesis documents incl. object-reuse histories, exact-arithmetic reference for cell boundaries")
CLAIMS["C03"] = ("exploration",
    "Pagination-oriented Hypothesis generator (rows with line heights calibrated for the cell's own font/size, group runs sized relative to the page capacity, null/divider groups, unequal widths, reused long texts, 'tight' pages without slack) plus an exhaustive header x footnote x source x strategy x nrow sweep; validity predicate per parsed page with an independent lower-bound line weight (PIL on the bundled fonts); an excess is attributed to named contributions and only the part not explained by listed known findings is a violation. " + _EXPL,
    _READER + " Row weight = ceil(text width / cell width) at the parsed font and size (a lower bound for any RTF viewer).",
    "property-based testing: calibrated pagination generator + exhaustive sweep, per-page budget predicate with independent text metrics")
CLAIMS["C04"] = ("exploration",
    "Exhaustive enumeration of all height vectors in {1,2,3}^n x all group-change patterns (n<=5 quick, n<=7 thorough) over rotating reservation/strategy configurations, plus Hypothesis-generated tables (1-3 level arbitrary key sequences incl. returning keys, all reservations, nrow 2-30); oracle from page membership of coordinate-tagged rows: contiguity, justified-breaks-only (observed fill + need vs nrow - R), forced breaks / no mixed pages, and the metamorphic prefix-stability relation. " + _EXPL,
    _READER + " Default body font with calibrated row heights so the library's estimate and the independent measurement agree by construction.",
    "property-based testing: exhaustive small-scope enumeration + Hypothesis, reference break-justification model and metamorphic prefix relation")
CLAIMS["C05"] = ("exploration",
    "Hypothesis-generated sorted group-key sequences (1-3 page_by levels and/or 1-2 subline_by columns, inner values reused under different outer values, divider runs, runs sized relative to the page capacity) plus an exhaustive sweep over all compositions of 8 rows x capacity 2..6; reference walk over the parsed page (presence, value, outer-before-inner order, no stranded heading, heading counts, dividers silent and lossless, one subline heading per page naming its group). " + _EXPL,
    _READER, "property-based testing: capacity-relative group-run generator + exhaustive compositions, reference walk over independently parsed pages")
CLAIMS["C13"] = ("exploration",
    "Exhaustive key sequences over a 7-symbol alphabet incl. null, '', '|' and '__NULL__' tokens (1 level up to length 5/6, 2 levels up to length 3/4) at page capacities 2, 3, unbounded, plus Hypothesis-generated 1-3 level sequences up to 60 rows combined with page_by / subline_by and deliberately non-contiguous orders; reference model with null as a value for blanking, page-context restoration, forward-fill reconstruction and the ValueError contract. " + _EXPL,
    _READER, "property-based testing: exhaustive short key sequences + Hypothesis, reference suppression/rejection model")
CLAIMS["C10"] = ("exploration",
    "Exhaustive over all 1,111,998 Unicode scalar values except C0/C1 controls in the thorough tier (quick: all of U+0080-U+02FF, every plane/surrogate/0x7FFF boundary, the 682 LaTeX targets) as body cells at string boundaries, plus Hypothesis-generated mixed strings in every text-bearing position with conversion on and off; round-trip oracle on the BYTES written by write_rtf through the independent reader, plus lexical validity of every \\u escape and its fallback. " + _EXPL,
    _READER + " \\ansi without \\ansicpg is read as Windows-1252.",
    "property-based testing: exhaustive code-point enumeration + Hypothesis strings in all positions, byte-level round-trip oracle")
CLAIMS["C11"] = ("exploration",
    "Exhaustive over all 682 supported commands x 14 context templates, the 26 braced commands with near-misses and every special sequence, plus Hypothesis-generated mixed texts, in every component kind with default and overridden text_convert and per-cell body text_convert; oracle = independent reference converter (written from the statement, frozen command table) whose output and the emitted run are both reduced by the independent reader to ordered events (text with super/sub state, line breaks, page fields, unknown control words). " + _EXPL,
    _READER + " Frozen LaTeX table (data/latex_table.json); one tolerated delimiter blank after >= / <= / \\pagefield.",
    "property-based testing: exhaustive command x template enumeration + Hypothesis texts, differential oracle vs independent reference converter")
CLAIMS["C09"] = ("exploration",
    "Hypothesis-generated tables (1-40 rows, 1-6 columns, every body attribute in scalar / per-column / per-row / matrix / recycled-pattern shape, 0-3 removed columns at any position, 1 to many pages, three strategies) plus a per-attribute matrix sweep on a paginated table; direct rule attr[i % R][j % C] per coordinate-tagged cell with colours resolved to RGB, and the metamorphic relation unpaginated == paginated per-cell property maps (page-boundary borders excluded). " + _EXPL,
    _READER + " Frozen colour table.", "property-based testing: Hypothesis attribute shapes, direct broadcasting rule + metamorphic paginated/unpaginated relation")
CLAIMS["C16"] = ("exploration",
    "Hypothesis-generated figure documents (1-6 PNG / JPEG / EMF files with generated headers, arbitrary legal dimensions and random payloads incl. every length residue around the hex line break, scalar / short / long size lists, alignments, 27 placements, optional title / subline / paragraph footnote and source) plus an exhaustive payload-length sweep 0..170; oracle on parsed picture destinations (count/order, blip, byte-exact payload, pixel dimensions, display size with positional reuse, one per page, placement). Cases of one worker reuse the same file paths with new content. " + _EXPL,
    _READER, "property-based testing / fuzzing: generated image headers and payloads, round-trip oracle on parsed \\pict destinations")
CLAIMS["C17"] = ("exploration",
    "Hypothesis-generated lists of 1-6 input documents from the universal strategy (tables, multi-section, figures; different geometries, page headers/footers, colours, the dictionary word 'fcharset', the same path twice) plus the empty list, a missing path at any position and a pre-existing output; oracle: C01's well-formedness predicate on the combined file, page-list concatenation compared through the independent reader, per-input geometry, byte identity for a single input, and the FileNotFoundError / no-write contract. " + _EXPL,
    _READER, "property-based testing: generated input lists, concatenation oracle on independently parsed pages")
CLAIMS["C18"] = ("fault_enumeration",
    "The harness owns the fault point: an exception is raised on entry of the k-th call into any rtflite function during an export (sys.settrace). Quick enumerates every distinct call site at its first, middle and last instance for 4 exports x 4 documents; thorough enumerates EVERY call instance for two documents; converter stub behaviours x target states x target names are enumerated exhaustively and Hypothesis draws further combinations. Oracle = file-system snapshot invariants (target bytes, directory listing, private TMPDIR) before/after and equality of the written file with the string the same rtf_encode() call returned. Holds on every fault point explored; faults inside polars / pydantic / the OS are out of reach.",
    "Fault granularity = rtflite function-call boundaries; LibreOffice replaced by a stub converter object; newly created parent directories are not debris.",
    "fault injection at enumerated call boundaries (harness-owned), file-system invariant oracle; Hypothesis for the remaining dimensions")
CLAIMS["C07"] = ("exploration",
    "Hypothesis-generated documents with independent random styles for the four page/body border settings, all header modes, footnote/source as table/paragraph/absent under every placement, 1..many pages, three strategies, user border matrices on interior rows, and 2-3 section documents, plus an exhaustive footnote x source x placement x header x strategy x pages product; oracle on the \\clbrdrt / \\clbrdrb styles of the independently parsed rows for the four clauses (document top, document bottom, page-break closing / opening edges, interior edges). " + _EXPL,
    _READER + " Row 0 of user border matrices stays default; body.border_first/last scalar.",
    "property-based testing: Hypothesis border configurations + exhaustive placement product, clause-wise validity predicate on parsed cell borders")
