#!/bin/sh
# Run every seeded change against the quick check of its own property; write seeded/RESULTS.md
OUT=${OUT:-/verif/seeded/RESULTS.md}
{
echo "# Seeded changes vs. checks"
echo
echo "Each change was produced by an independent sub-agent (given only the property text and a scratch worktree), confirmed by"
echo "tools/seed_verify.sh (demo passes on the pristine tree, fails with the change, full pinned pytest suite green with the change)"
echo "and is applied here in a scratch worktree of /repo HEAD (git apply, falling back to patch --fuzz=3 when my later fix: commits"
echo "moved the context) before running the property's quick check with VERIF_REPO pointing at that worktree. rc=1 = detected."
echo
echo "| change | check | tier | rc | wall | first signatures |"
echo "|---|---|---|---|---|---|"
} > $OUT
# ONLY="C01 C02": restrict to these properties (several streams can then run side by side, each with its own OUT)
for d in /verif/seeded/*/; do
  n=$(basename $d)
  [ -f "$d/patch.diff" ] || continue
  if [ -n "$ONLY" ]; then case " $ONLY " in *" $(echo $n | cut -d- -f1) "*) ;; *) continue;; esac; fi
  # seeded/<name>/checks names the check(s) that own the violated behaviour when that is not the property the
  # sub-agent was asked about (e.g. a stale-cache history delivered for C02 is a C14 violation)
  extra=""; [ -f "$d/checks" ] && extra=$(cat "$d/checks")
  line=$(/verif/tools/seed_detect.sh $n quick $extra 2>&1 | tail -1)
  rc=$(echo "$line" | sed -n 's/.* rc=\([0-9]*\).*/\1/p'); wall=$(echo "$line" | sed -n 's/.* wall=\([0-9]*s\).*/\1/p'); chk=$(echo "$line" | sed -n 's/.* check=\([A-Z0-9]*\).*/\1/p')
  sig=$(echo "$line" | sed 's/.*wall=[0-9]*s//' | sed 's/signature=//g' | sed 's/|/\//g' | cut -c1-150)
  echo "| $n | $chk | quick | ${rc:-apply-failed} | $wall | $sig |" >> $OUT
  echo "$line"
done
