import json, sys, glob
import jsonschema
m = json.load(open('/verif/MANIFEST.json'))
jsonschema.validate(m, json.load(open('/root/.vp/MANIFEST.schema.json')))
es = json.load(open('/root/.vp/EVIDENCE.schema.json'))
for c in m['checks']:
    try:
        jsonschema.validate(json.load(open('/verif/' + c['evidence_file'])), es)
    except Exception as e:
        print('EVIDENCE PROBLEM', c['property_id'], str(e)[:200])
ids = [json.loads(l)['id'] for l in open('/verif/properties.jsonl')]
claimed = {c['property_id'] for c in m['checks']}
na = {x['property_id'] for x in m.get('not_applicable', [])}
print('valid; claimed', sorted(claimed), 'not_applicable', sorted(na), 'unlisted', [i for i in ids if i not in claimed | na])
