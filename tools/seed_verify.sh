#!/bin/sh
# tools/seed_verify.sh <src_dir_with_patch.diff+demo.py> <name>
# Confirms a seeded change in a scratch worktree of /repo HEAD: demo passes pristine, fails patched, suite green patched.
SRC="$1"; NAME="$2"
WT=/tmp/vs/$NAME
rm -rf "$WT"; git -C /repo worktree prune
git -C /repo worktree add --detach -q "$WT" HEAD || exit 2
cd "$WT" || exit 2
export PYTHONPATH="$WT/src" PYTHONDONTWRITEBYTECODE=1
/venv/bin/python "$SRC/demo.py" >/tmp/vs/$NAME.pristine.log 2>&1; P=$?
if ! git apply "$SRC/patch.diff" 2>/tmp/vs/$NAME.apply.log; then
  if ! patch -p1 --fuzz=3 < "$SRC/patch.diff" >>/tmp/vs/$NAME.apply.log 2>&1; then echo "$NAME apply=FAILED"; cd /; git -C /repo worktree remove --force "$WT"; exit 1; fi
  find . -name "*.orig" -delete
fi
/venv/bin/python "$SRC/demo.py" >/tmp/vs/$NAME.patched.log 2>&1; M=$?
/venv/bin/python -m pytest -q -p no:cacheprovider --timeout=900 -x >/tmp/vs/$NAME.tests.log 2>&1; T=$?
echo "$NAME demo_pristine_rc=$P demo_patched_rc=$M tests_rc=$T $(tail -1 /tmp/vs/$NAME.tests.log)"
cd /; git -C /repo worktree remove --force "$WT"
