#!/bin/sh
# tools/seed_round.sh <PID> <k...> [-- extra checks]: verify, store, detect one or more delivered changes
PID=$1; shift
for k in "$@"; do
  ./tools/seed_verify.sh /tmp/seed/$PID/out/$k $PID$k | tee -a /tmp/vs/summary.txt
  python3 tools/seed_store.py $PID $k >/dev/null
  ./tools/seed_detect.sh $PID-$k quick $PID
done
