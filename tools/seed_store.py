#!/usr/bin/env python3
"""tools/seed_store.py <PID> <A|B> : copy a verified sub-agent change into /verif/seeded/<PID>-<k>/ with meta.json"""
import json, os, re, shutil, sys
pid, k = sys.argv[1], sys.argv[2]
src = f"/tmp/seed/{pid}/out/{k}"
dst = f"/verif/seeded/{pid}-{k}"
os.makedirs(dst, exist_ok=True)
for f in ("patch.diff", "demo.py", "notes.md"):
    shutil.copy(os.path.join(src, f), os.path.join(dst, f))
summ = {}
for line in open("/tmp/vs/summary.txt"):
    if line.startswith(f"{pid}{k} ") and "tests_rc=" in line:
        summ = dict(re.findall(r"(\w+)=(\S+)", line)); summ["tests"] = line.strip().split("tests_rc=")[1]
notes = open(os.path.join(src, "notes.md")).read()
meta = {
    "property": pid,
    "source": "independent sub-agent given only the property text and a scratch worktree of /repo (pinned commit 988dfdc)",
    "needs_to_manifest": notes.strip()[:1500],
    "verified_by_me": {
        "how": "tools/seed_verify.sh: scratch worktree of /repo HEAD; demo.py on pristine (exit 0), git apply patch.diff, demo.py (exit 1), full pinned pytest suite with the patch",
        "demo_pristine_rc": int(summ.get("demo_pristine_rc", -1)), "demo_patched_rc": int(summ.get("demo_patched_rc", -1)),
        "tests_with_patch": summ.get("tests", "?"),
    },
    "detected_by": "see seeded/RESULTS.md",
}
json.dump(meta, open(os.path.join(dst, "meta.json"), "w"), indent=1)
print("stored", dst)
