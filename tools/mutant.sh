#!/bin/sh
# tools/mutant.sh <check> <file-relative-to-src/rtflite> <sed-expression> : quick sensitivity probe in a scratch copy
C="$1"; F="$2"; SED="$3"
D=/tmp/vs/mut_$$; rm -rf $D; mkdir -p $D; cp -r /repo/src $D/src
sed -i "$SED" $D/src/rtflite/$F
if diff -q /repo/src/rtflite/$F $D/src/rtflite/$F >/dev/null; then echo "mutant did not change the file"; rm -rf $D; exit 2; fi
VERIF_REPO=$D /verif/check $C quick 2>&1 | grep -E "signature=|^\[|HARNESS" | cut -c1-220 | head -6
rm -rf $D
