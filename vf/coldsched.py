"""One schedule in a freshly spawned interpreter in which nothing has been encoded before (C15, cold start).

Run as `python -m vf.coldsched` with a JSON request on stdin:
  {"mode": "profile", "docs": [a, b], "share": ...}     -> {"sites": [...]}   call sites of document a's encode, cold
  {"mode": "run", "docs": [...], "preempt": [[tid, k]], "share": ...} -> {"out": [...], "fired": n, "hung": bool}
"""
from __future__ import annotations

import json
import os
import subprocess
import sys


def child_main():
    req = json.load(sys.stdin)
    from vf.props import c15
    from vf.sched import run_schedule

    docs = c15.build_docs(req["docs"], req.get("share"))
    if req["mode"] == "profile":
        # like faults.trace_calls, plus a flag for calls made while a module is being imported: a thread parked there
        # by the baton would hold the import lock, which a real scheduler never does for long - not a preemption point
        sites = []

        def tr(frame, event, arg):
            if event == "call" and "/rtflite/" in frame.f_code.co_filename:
                importing, f = False, frame
                while f is not None:
                    if "importlib" in f.f_code.co_filename:
                        importing = True
                        break
                    f = f.f_back
                sites.append(("import:" if importing else "") + frame.f_code.co_filename.split("/rtflite/")[-1] + ":" + frame.f_code.co_name)
            return None

        sys.settrace(tr)
        try:
            docs[0].rtf_encode()
        finally:
            sys.settrace(None)
        print(json.dumps({"sites": sites}))
        return
    out, cnt, fired, hung = run_schedule([d.rtf_encode for d in docs], req["preempt"], lines=False, timeout=40)
    print(json.dumps({"out": out, "fired": fired, "hung": hung}))


def spawn(req, timeout=300) -> dict:
    repo = os.environ.get("VERIF_REPO", "/repo")
    env = dict(os.environ)
    here = os.path.dirname(os.path.dirname(os.path.abspath(__file__)))
    env["PYTHONPATH"] = f"{repo}/src:{here}:" + env.get("PYTHONPATH", "")
    p = subprocess.run([sys.executable, "-m", "vf.coldsched"], input=json.dumps(req), capture_output=True, text=True, env=env, timeout=timeout)
    lines = [ln for ln in p.stdout.splitlines() if ln.startswith("{")]
    if p.returncode != 0 or not lines:
        return {"spawn_error": (p.stderr or p.stdout)[-500:]}
    return json.loads(lines[-1])


if __name__ == "__main__":
    child_main()
