"""Pagination-oriented recipe construction (C03 / C04 / C05): rows with calibrated line heights,
group runs placed relative to the page capacity, coordinate tags r<i>c<j> in every data cell."""
from __future__ import annotations

from hypothesis import strategies as st

from . import metrics

COL_WIDTH = 6.25  # default portrait col_width (8.5 - 2.25)


def make_table(heights, groups=None, *, ndata=2, fonts=None, sizes=None, subline=None, page_by_levels=0,
               new_page=False, pageby_row=None, pageby_header=None, header="explicit", footnote=None, source=None,
               nrow=10, placements=None, tall_cols=None, title=False, group_first=True, rel_widths=None, shared=None,
               reverse_group_cols=False, size_pattern=None, null_cells=None, tall_header=0, tall_header_col=None, group_by_runs=None, glyphs=None, as_colheader=None, group_style=None):
    """Deterministic builder.
    heights: list of target line counts per row.
    groups: list (one per page_by level) of per-row values; subline: per-row values or None.
    fonts / sizes: per data column lists (or None = library default 1 / 9).
    footnote / source: None | "table" | "para".
    Returns the recipe; rows that could not be calibrated to the requested height fall back to height 1
    (recorded in recipe['heights'])."""
    n = len(heights)
    levels = page_by_levels
    col_specs = []
    body = {}
    names = []
    gcols = []
    for lvl in range(levels):
        gcols.append({"name": f"@N{len(names)}", "dtype": "str", "values": list(groups[lvl])})
        names.append(gcols[-1]["name"])
    scols = []
    if subline is not None:
        sub_lists = subline if (subline and isinstance(subline[0], list)) else [subline]
        for sl in sub_lists:
            scols.append({"name": f"@N{len(names)}", "dtype": "str", "values": list(sl)})
            names.append(scols[-1]["name"])
    spanning = levels > 0 and (not new_page or (pageby_row or "column") != "column")
    ndisp = ndata + (levels if (levels and not spanning) else 0) + (1 if group_by_runs else 0)
    rel = list(rel_widths) if rel_widths else [1] * ndata
    tot_rel = sum(rel) + (ndisp - ndata)
    cws = [COL_WIDTH * r / tot_rel for r in rel]
    fonts = fonts or [1] * ndata
    sizes = sizes or [9] * ndata
    data_cols = [{"name": f"@N{len(names) + j}", "dtype": "str", "values": []} for j in range(ndata)]
    real_heights = []
    for i, k in enumerate(heights):
        tall = (tall_cols[i] if tall_cols else i) % ndata
        hk = k
        row_size = size_pattern[i % len(size_pattern)] if size_pattern else None
        for j in range(ndata):
            tag = f"r{i}c{j}"
            if row_size is not None:
                sizes = list(sizes)
                sizes[j] = row_size
            sh = shared.get(f"{i},{j}") if shared else None
            if null_cells and f"{i},{j}" in null_cells and j != tall and ndata >= 2:
                t = None          # a missing value: rendered as an empty cell, one line
            elif sh is not None and j > 0:
                t = sh            # the same long text reused in several cells (no coordinate tag)
                hk = max(hk, metrics.lines_lower_bound(t, fonts[j], sizes[j], cws[j]))
            elif j == tall and k > 1:
                t = metrics.filler(k, cws[j], fonts[j], sizes[j], prefix=tag, words=metrics.WORD_SETS[glyphs[i % len(glyphs)]] if glyphs else None)
                if t is None:
                    t, hk = tag, 1
            else:
                t = tag
            data_cols[j]["values"].append(t)
        real_heights.append(hk)
    # the stored column order of the key columns need not follow the page_by order
    stored_g = list(reversed(gcols)) if reverse_group_cols else gcols
    if group_by_runs:
        # a displayed group_by column: one label per run (k lines in its own cell), blanked on repeats by the library
        gw = COL_WIDTH / tot_rel
        vals = []
        for r, (length, k) in enumerate(group_by_runs):
            label = metrics.filler(k, gw, 1, 9, prefix=f"g{r}") or f"g{r}"
            vals += [label] * length
        vals = (vals + [f"g{len(group_by_runs)}"] * n)[:n]
        data_cols = [{"name": "@Ngb", "dtype": "str", "values": vals}] + data_cols
        body["group_by"] = ["@Ngb"]
    cols = (stored_g + scols + data_cols) if group_first else (data_cols + stored_g + scols)
    order_names = [c["name"] for c in cols]
    tagged = [c for c in data_cols if c["name"] != "@Ngb"]

    def _di(c):
        """index of a calibrated data column (None for key columns and the group_by column)"""
        for j, d in enumerate(tagged):
            if d is c:
                return j
        return None
    if levels:
        body["page_by"] = [c["name"] for c in gcols]
        if new_page:
            body["new_page"] = True
        if pageby_row:
            body["pageby_row"] = pageby_row
    if scols:
        body["subline_by"] = [c["name"] for c in scols]
    if pageby_header is not None:
        body["pageby_header"] = pageby_header
    if rel_widths:
        body["col_rel_width"] = [rel[_di(c)] if _di(c) is not None else 1 for c in cols]
    if size_pattern:
        # a short per-row pattern (matrix with fewer rows than the table, recycled down the rows)
        body["text_font_size"] = [[sz] * len(cols) for sz in size_pattern]
        if any(f != 1 for f in fonts):
            body["text_font"] = [fonts[_di(c)] if _di(c) is not None else 1 for c in cols]
    elif any(f != 1 for f in fonts) or any(s != 9 for s in sizes) or group_style:
        # per-column vectors indexed by ORIGINAL column position; group_style = (font, size) of the key columns, which is the
        # style of their spanning heading rows
        fvec, svec = [], []
        for c in cols:
            if _di(c) is not None:
                j = _di(c)
                fvec.append(fonts[j])
                svec.append(sizes[j])
            else:
                fvec.append(group_style[0] if group_style else 1)
                svec.append(group_style[1] if group_style else 9)
        body["text_font"] = fvec
        body["text_font_size"] = svec
    sec = {"df": {"cols": cols}, "body": body}
    def label(tag, width):
        # tall_header = k: the label wraps to k lines in its own cell (default header font, 9 pt)
        if tall_header > 1 and not rel_widths:
            return metrics.filler(tall_header, width, 1, 9, prefix=tag) or tag
        return tag

    if header == "explicit":
        hc = (tall_header if tall_header_col is None else tall_header_col) % ndisp
        sec["headers"] = [{"text": [label(f"@H0.{c}", COL_WIDTH / ndisp) if c == hc else f"@H0.{c}" for c in range(ndisp)]}]
    elif header == "multi":
        sec["headers"] = [{"text": [label("@H0.0", COL_WIDTH)], "col_rel_width": [1]}, {"text": [f"@H1.{c}" for c in range(ndisp)]}]
    elif header == "none":
        sec["headers"] = "none"
    else:
        sec["headers"] = "default"
    if as_colheader is not None:
        body["as_colheader"] = as_colheader
    page = {"nrow": nrow}
    if placements:
        page.update(dict(zip(("page_title", "page_footnote", "page_source"), placements)))
    rec = {"kind": "table", "page": page, "sections": [sec], "heights": real_heights}
    if title:
        rec["title"] = {"text": ["@T0"]}
    if footnote:
        rec["footnote"] = {"text": ["@F0"], "as_table": footnote == "table"}
    if source:
        rec["source"] = {"text": ["@S0"], "as_table": source == "table"}
    return rec


def runs_to_values(runs, tag, level, start=0, divider_at=()):
    out = []
    for k, r in enumerate(runs):
        v = "-----" if k in divider_at else f"{tag}{level}:v{start + k}"
        out += [v] * r
    return out


@st.composite
def runs_for(draw, n, capacity):
    """Run lengths relative to the page capacity: capacity*{1/4,1/2,1,3/2,2} +-1."""
    out, left = [], n
    while left > 0:
        base = draw(st.sampled_from([0.25, 0.5, 1, 1.5, 2]))
        r = max(1, int(capacity * base) + draw(st.integers(-1, 1)))
        r = min(r, left)
        out.append(r)
        left -= r
    return out


@st.composite
def nested_groups(draw, n, levels, capacity, dividers=False, nulls=False, restart=None):
    """Hierarchically sorted keys for `levels` page_by levels; returns list of per-row value lists."""
    cols = [[None] * n for _ in range(levels)]
    counters = [0] * levels
    if restart is None:
        restart = draw(st.booleans())

    def fill(level, lo, hi):
        if level >= levels or lo >= hi:
            return
        cap = capacity * (2 if level == 0 and levels > 1 else 1)
        pos = lo
        for r in draw(runs_for(hi - lo, max(1, cap))):
            roll = draw(st.integers(0, 99))
            if dividers and roll < 12:
                v = "-----"
            elif nulls and roll >= 82:
                v = None
            else:
                v = f"@G{level}:v{counters[level]}"
            counters[level] += 1
            for i in range(pos, pos + r):
                cols[level][i] = v
            if restart and level + 1 < levels:
                counters[level + 1] = 0      # inner values are reused under different outer values
            if v == "-----":
                # a divider group has no headings at all: the inner levels are dividers too
                for inner in range(level + 1, levels):
                    for i in range(pos, pos + r):
                        cols[inner][i] = "-----"
            else:
                fill(level + 1, pos, pos + r)
            pos += r

    fill(0, 0, n)
    return cols


@st.composite
def lengthen_groups(draw, groups, p=4):
    """Some group values become long enough to wrap to 2-3 lines when set across the whole table width."""
    out = []
    for col in groups:
        longer = {}
        for v in dict.fromkeys(col):
            if isinstance(v, str) and v != "-----" and draw(st.integers(0, 9)) < p:
                kind = draw(st.sampled_from(["normal", "wide", "narrow", "many_narrow_chars_one_line"]))
                if kind == "many_narrow_chars_one_line":
                    # more characters than any wrapping heading, yet one line: a "longest string" is not the widest one
                    t = v
                    for k in range(200):
                        nxt = t + " " + metrics.NARROW_WORDS[k % len(metrics.NARROW_WORDS)]
                        if metrics.width_in(nxt, 1, 9) > 0.75 * COL_WIDTH:
                            break
                        t = nxt
                else:
                    t = metrics.filler(draw(st.integers(2, 3)), COL_WIDTH, 1, 9, prefix=v, words=metrics.WORD_SETS[kind])
                if t is not None:
                    longer[v] = t
        out.append([longer.get(v, v) for v in col])
    return out


@st.composite
def pag_recipe(draw, *, fonts=False, strategies=("plain", "page_by", "page_by_new", "subline"), max_rows=40, nrow_range=(2, 30),
               max_height=6, headers=("explicit", "default", "multi", "none"), levels_max=1, dividers=False,
               subline_with_page_by=False, pageby_rows=("column",), fn_src=True, placements=True, nulls=False,
               widths=False, tall_headings=False, tall_headers=False, group_by=False, glyph_mix=False):
    strat = draw(st.sampled_from(strategies))
    ndata = draw(st.integers(1, 3))
    levels = 0
    if strat.startswith("page_by") or (strat == "subline" and subline_with_page_by and draw(st.booleans())):
        levels = draw(st.integers(1, levels_max))
    header = draw(st.sampled_from(headers))
    footnote = draw(st.sampled_from([None, "table", "para"])) if fn_src else None
    source = draw(st.sampled_from([None, "table", "para"])) if fn_src else None
    nrow = draw(st.integers(*nrow_range))
    R = {"explicit": 1, "default": 1, "multi": 2, "none": 0}[header] + (1 if footnote else 0) + (1 if source else 0) \
        + (1 if strat == "subline" else 0)
    capacity = max(1, nrow - R)
    n = draw(st.integers(0, max_rows))
    heights = []
    for _ in range(n):
        h = 1
        if max_height > 1 and draw(st.integers(0, 9)) < 3:
            h = draw(st.integers(2, max_height))
        heights.append(h)
    f = s = None
    if fonts:
        f = [draw(st.integers(1, 10)) for _ in range(ndata)]
        s = [draw(st.sampled_from([6, 7, 8, 9, 9, 10, 12, 14, 18, 24])) for _ in range(ndata)]
        if draw(st.integers(0, 9)) < 3:
            f = [1] * ndata
        if draw(st.integers(0, 9)) < 3:
            s = [9] * ndata
    groups = draw(nested_groups(n, levels, capacity, dividers=dividers, nulls=nulls)) if levels else None
    if tall_headings and levels and draw(st.integers(0, 9)) < 5:
        groups = draw(lengthen_groups(groups))
    rel = shared = None
    size_pattern = None
    if fonts and n >= 3 and draw(st.integers(0, 9)) < 3:
        size_pattern = [draw(st.sampled_from([7, 9, 9, 12, 16])) for _ in range(draw(st.integers(2, 3)))]
    if widths and ndata >= 2 and draw(st.integers(0, 9)) < 4:
        rel = [draw(st.sampled_from([1, 1, 2, 3, 4])) for _ in range(ndata)]
        if not fonts or draw(st.booleans()):
            # a few long texts reused verbatim in several cells of columns >= 1
            pool = [" ".join(metrics.WORDS[(a + b) % 10] for b in range(draw(st.integers(6, 30)))) for a in range(2)]
            shared = {}
            for _ in range(draw(st.integers(2, 8))):
                if n:
                    shared[f"{draw(st.integers(0, n - 1))},{draw(st.integers(1, ndata - 1))}"] = draw(st.sampled_from(pool))
    null_cells = None
    if rel and n and draw(st.integers(0, 9)) < 5:
        # missing values left of / between the wrapping cells of unequal-width tables
        null_cells = {f"{i},{draw(st.integers(0, ndata - 1))}" for i in range(n) if draw(st.integers(0, 9)) < 4}
    subline = None
    if strat == "subline":
        if n and draw(st.integers(0, 9)) < 3:
            two = draw(nested_groups(n, 2, capacity, restart=True))
            subline = [[v.replace("@G", "@B") for v in two[0]], [v.replace("@G", "@B") for v in two[1]]]
        else:
            subline = runs_to_values(draw(runs_for(n, capacity)), "@B", 0) if n else []
    if tall_headings and subline and isinstance(subline[0], str) and draw(st.integers(0, 9)) < 5:
        # subline_by values long enough to wrap in the heading paragraph (text area 6.25 in on the default page)
        subline = draw(lengthen_groups([subline]))[0]
    gb_runs = None
    if group_by and strat == "plain" and n and draw(st.integers(0, 9)) < 6:
        # a displayed group_by column whose labels take 1-3 lines; runs sized relative to the page capacity
        gb_runs = [(r, draw(st.sampled_from([1, 2, 2, 3]))) for r in draw(runs_for(n, capacity))]
    new_page = strat == "page_by_new"
    pbr = draw(st.sampled_from(pageby_rows)) if new_page else None
    pl = tuple(draw(st.sampled_from(["first", "last", "all"])) for _ in range(3)) if (placements and draw(st.booleans())) else None
    pbh = draw(st.sampled_from([None, None, True, False]))
    rec = make_table(heights, groups, ndata=ndata, fonts=f, sizes=s, subline=subline, page_by_levels=levels,
                     new_page=new_page, pageby_row=pbr, pageby_header=pbh, header=header, footnote=footnote,
                     source=source, nrow=nrow, placements=pl, title=draw(st.booleans()),
                     tall_cols=[draw(st.integers(0, 2)) for _ in range(n)], group_first=draw(st.booleans()),
                     rel_widths=rel, shared=shared, null_cells=null_cells, reverse_group_cols=(levels >= 2 and draw(st.integers(0, 9)) < 3),
                     size_pattern=size_pattern,
                     tall_header=draw(st.integers(2, 3)) if (tall_headers and draw(st.integers(0, 9)) < 4) else 0,
                     tall_header_col=draw(st.integers(0, 3)), group_by_runs=gb_runs,
                     # explicit header rows are rendered (and take their lines) whatever as_colheader says
                     as_colheader=False if (header in ("explicit", "multi") and draw(st.integers(0, 9)) < 2) else None,
                     glyphs=[draw(st.sampled_from(["normal", "wide", "narrow"])) for _ in range(draw(st.integers(1, 4)))] if (glyph_mix and draw(st.booleans())) else None,
                     # the key columns' own type = the type of their spanning heading rows
                     group_style=(draw(st.integers(1, 10)), draw(st.sampled_from([7, 12, 14, 18, 24]))) if (fonts and levels and draw(st.integers(0, 9)) < 3) else None)
    rec["strategy"] = strat
    return rec
