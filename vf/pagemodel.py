"""Per-page accounting of a parsed single-table document (C03 / C04 / C05)."""
from __future__ import annotations

import re
from dataclasses import dataclass, field

from . import metrics
from . import recipe as R
from .model import classify
from .rtfread import Row

COORD = re.compile(r"^r(\d+)c(\d+)")


@dataclass
class DataRow:
    index: int | None          # original row index from the coordinate tag
    weight: int                # lower bound on lines at the cell's own font / size / width
    lib_estimate: int          # what an estimate at font 1 / 9 pt (int(w/cw)+1) gives
    texts: list
    pos: int                   # position among the page's items


@dataclass
class PageInfo:
    number: int
    items: list
    header_rows: list = field(default_factory=list)      # weights
    auto_header_rows: int = 0
    headings: list = field(default_factory=list)         # (pos, level, text, weight)
    data: list = field(default_factory=list)
    sublineheads: list = field(default_factory=list)     # texts
    subline_lines: int = 0                               # lower bound on the lines of the subline heading paragraph(s)
    fn_rows: int = 0
    src_rows: int = 0

    def total(self):
        return (sum(self.header_rows) + sum(h[3] for h in self.headings) + sum(d.weight for d in self.data)
                + max(len(self.sublineheads), self.subline_lines) + self.fn_rows + self.src_rows)

    def body_fill(self):
        return sum(h[3] for h in self.headings) + sum(d.weight for d in self.data)


def row_weight(row: Row, font_override=None):
    prev = 0
    w = 1
    for c in row.cells:
        width = (c.cellx - prev) / 1440.0
        prev = c.cellx
        if font_override:
            f, s = font_override
        else:
            f = (c.cprops.get("f", 0) or 0) + 1
            s = (c.cprops.get("fs", 18) or 18) / 2.0
        if not (1 <= f <= 10):
            f = 1
        w = max(w, metrics.lines_lower_bound(c.text, f, s, width))
    return w


def lib_estimate(row: Row):
    """int(width/col)+1 at font 1, 9 pt: the estimate a font-ignorant paginator makes."""
    prev = 0
    w = 1
    for c in row.cells:
        width = (c.cellx - prev) / 1440.0
        prev = c.cellx
        if c.text and width > 0:
            w = max(w, int(metrics.width_in(c.text, 1, 9) / width) + 1)
    return w


def text_area_in(doc):
    """Width available to a paragraph: paper width minus left and right margin (document start)."""
    g = doc.geom[0] if doc.geom else {}
    if all(k in g for k in ("paperw", "margl", "margr")):
        return (g["paperw"] - g["margl"] - g["margr"]) / 1440.0
    return None


def analyze(doc):
    pages = []
    area = text_area_in(doc)
    for pn, items in enumerate(classify(doc)):
        p = PageInfo(pn, items)
        for pos, it in enumerate(items):
            if it.role == "header":
                p.header_rows.append(row_weight(it.block))
                if it.texts and it.texts[0].startswith("@N"):
                    p.auto_header_rows += 1
            elif it.role == "heading":
                t = it.texts[0]
                m = re.match(r"^@G(\d+):", t)
                p.headings.append((pos, int(m.group(1)) if m else -1, t, row_weight(it.block)))
            elif it.role == "data":
                idx = None
                for t in it.texts:
                    m = COORD.match(t)
                    if m:
                        idx = int(m.group(1))
                        break
                p.data.append(DataRow(idx, row_weight(it.block), lib_estimate(it.block), it.texts, pos))
            elif it.role == "sublinehead":
                p.sublineheads.append(it.texts[0])
                cp = it.block.cprops
                f = (cp.get("f", 0) or 0) + 1
                p.subline_lines += metrics.lines_lower_bound(it.texts[0], f if 1 <= f <= 10 else 1, (cp.get("fs", 18) or 18) / 2.0, area) if area else 1
            elif it.role == "fnrow":
                p.fn_rows += 1
            elif it.role == "srcrow":
                p.src_rows += 1
        pages.append(p)
    return pages


def reservation(case) -> int:
    """Number of configured repeating rows R: header rows, footnote, source, subline heading
    (regardless of placement): the documented 'nrow includes ALL components' reading."""
    sec = case["sections"][0]
    h = sec.get("headers", "default")
    if h == "none":
        nh = 0
    elif h == "default":
        nh = 1
    else:
        nh = len(h)
    body = sec.get("body", {})
    return nh + (1 if case.get("footnote") else 0) + (1 if case.get("source") else 0) + (1 if body.get("subline_by") else 0)


def group_values(case):
    """Per original row: tuple of page_by values (levels) and subline value."""
    sec = case["sections"][0]
    body = sec.get("body", {})
    pb = [R.column(sec, n)["values"] for n in R.as_list(body.get("page_by"))]
    sb = [R.column(sec, n)["values"] for n in R.as_list(body.get("subline_by"))]
    n = R.nrows(sec)
    return [tuple(c[i] for c in pb) for i in range(n)], [tuple(c[i] for c in sb) for i in range(n)]


def heading_lines(v, width_in=6.25):
    """Lower bound on the lines of a heading row showing v across a table of this width (default font, 9 pt)."""
    return metrics.lines_lower_bound(str(v), 1, 9, width_in)


def headings_brought(prev_key, key, weight=None):
    """Heading LINES a row brings when it follows prev_key on the same page: levels from the first changed
    level down (outer change forces inner levels), dividers excluded.  weight(v) = lines of one heading (default 1)."""
    silent = ("-----", None)
    weight = weight or (lambda v: 1)
    if prev_key is None:
        return sum(weight(v) for v in key if v not in silent)
    first = None
    for lvl, (a, b) in enumerate(zip(prev_key, key)):
        if a != b:
            first = lvl
            break
    if first is None:
        return 0
    return sum(weight(v) for v in key[first:] if v not in silent)
