"""Seeded run loop shared by all properties: known-finding replay -> collect -> bucket -> shrink.

A property module (vf/props/cNN.py) provides

    ID, RULE, LEVEL ("exploration" | "fault_enumeration"), ASSUMPTIONS (list[str])
    strategy(tier)                 -> hypothesis strategy producing JSON-serialisable cases (or None)
    budget(tier)                   -> number of generated cases per shard
    enumerate_cases(tier)          -> iterable of cases enumerated exhaustively (optional)
    check(case)                    -> Result
    reductions(case)               -> iterable of smaller candidate cases (optional; default generic)
    match_known(failure, sigs)     -> name of the finding signature that explains it, or None (optional)
    extra_evidence(tier, merged)   -> dict merged into coverage (optional)

Nothing in here reads the clock for decisions, uses an RNG of its own, or depends on dict order;
every random choice is made by Hypothesis from seed VERIF_SEED*1000+shard.
"""
from __future__ import annotations

import collections
import hashlib
import importlib
import json
import multiprocessing as mp
import os
import sys
import time
import traceback
from dataclasses import dataclass, field

from . import findings as findings_mod

VERIF = os.path.dirname(os.path.dirname(os.path.abspath(__file__)))
MAX_BUCKETS_REPORTED = 5
REDUCE_EVALS = 250


@dataclass
class Failure:
    clause: str
    sig: str
    detail: str = ""

    @property
    def key(self):
        return f"{self.clause}/{self.sig}"


@dataclass
class Result:
    failures: list = field(default_factory=list)
    nontrivial: bool = False
    labels: list = field(default_factory=list)
    excluded: str | None = None   # case could not exercise the property (counted, never a pass)
    harness_error: str | None = None
    checks: int = 0               # number of elementary assertions evaluated

    def fail(self, clause, sig, detail=""):
        self.failures.append(Failure(clause, sig, str(detail)[:600]))


def case_hash(case) -> str:
    return hashlib.sha1(json.dumps(case, sort_keys=True, default=str).encode()).hexdigest()


def abbreviate(obj, maxlist=6, maxstr=80, depth=0):
    if isinstance(obj, dict):
        return {k: abbreviate(v, maxlist, maxstr, depth + 1) for k, v in obj.items()}
    if isinstance(obj, (list, tuple)):
        out = [abbreviate(v, maxlist, maxstr, depth + 1) for v in obj[:maxlist]]
        if len(obj) > maxlist:
            out.append(f"...(+{len(obj) - maxlist})")
        return out
    if isinstance(obj, str) and len(obj) > maxstr:
        return obj[:maxstr] + f"...(+{len(obj) - maxstr})"
    return obj


def load_prop(pid: str):
    return importlib.import_module(f"vf.props.{pid.lower()}")


class Collector:
    def __init__(self, prop, open_sigs):
        self.prop = prop
        self.open_sigs = open_sigs
        self.evaluations = 0
        self.nontrivial = set()
        self.labels = collections.Counter()
        self.known_hits = collections.Counter()
        self.excluded = collections.Counter()
        self.buckets = {}            # key -> {"count", "case", "detail"}
        self.samples = []
        self.harness_errors = []
        self.checks = 0

    def handle(self, case):
        self.evaluations += 1
        try:
            res = self.prop.check(case)
        except Exception:  # a bug in the harness, never a violation
            self.harness_errors.append(traceback.format_exc()[-1500:])
            return
        self.checks += res.checks
        if res.harness_error:
            self.harness_errors.append(res.harness_error[-1500:])
            return
        for lab in res.labels:
            self.labels[lab] += 1
        if res.excluded:
            self.excluded[res.excluded] += 1
        if res.nontrivial:
            h = case_hash(case)
            if h not in self.nontrivial:
                self.nontrivial.add(h)
                if len(self.samples) < 3:
                    self.samples.append(abbreviate(case))
        for f in res.failures:
            known = match_known(self.prop, f, self.open_sigs)
            if known:
                self.known_hits[known] += 1
                continue
            b = self.buckets.get(f.key)
            if b is None:
                self.buckets[f.key] = {"count": 1, "case": case, "detail": f.detail,
                                       "size": len(json.dumps(case, default=str))}
            else:
                b["count"] += 1
                size = len(json.dumps(case, default=str))
                if size < b["size"]:
                    b.update(case=case, detail=f.detail, size=size)

    def export(self):
        return {
            "evaluations": self.evaluations,
            "nontrivial": self.nontrivial,
            "labels": self.labels,
            "known_hits": self.known_hits,
            "excluded": self.excluded,
            "buckets": self.buckets,
            "samples": self.samples,
            "harness_errors": self.harness_errors[:3],
            "n_harness_errors": len(self.harness_errors),
            "checks": self.checks,
        }


def match_known(prop, failure: Failure, open_sigs):
    hook = getattr(prop, "match_known", None)
    if hook is not None:
        return hook(failure, open_sigs)
    return failure.key if failure.key in open_sigs else None


def _shard(args):
    pid, tier, seed, shard, nshards, open_sigs = args
    import hypothesis
    from hypothesis import HealthCheck, Phase, given, settings

    prop = load_prop(pid)
    col = Collector(prop, open_sigs)
    t0 = time.time()
    try:
        enum = getattr(prop, "enumerate_cases", None)
        if enum is not None:
            for i, case in enumerate(enum(tier)):
                if i % nshards == shard:
                    col.handle(case)
        strat = prop.strategy(tier) if hasattr(prop, "strategy") else None
        n = prop.budget(tier) if strat is not None else 0
        if strat is not None and n > 0:
            @hypothesis.seed(seed * 1000 + shard)
            @settings(max_examples=n, database=None, deadline=None, derandomize=False,
                      phases=[Phase.generate], suppress_health_check=list(HealthCheck),
                      report_multiple_bugs=False)
            @given(strat)
            def run(case):
                col.handle(case)

            run()
    except Exception:
        col.harness_errors.append(traceback.format_exc()[-2000:])
    out = col.export()
    out["wall"] = time.time() - t0
    out["shard_seed"] = seed * 1000 + shard
    return out


def _replays(args):
    """Known-finding reproducers (-> KNOWN-FINDING lines) and regression inputs (-> collector)."""
    pid, open_sigs = args
    prop = load_prop(pid)
    lines = []
    for f in findings_mod.load(pid):
        if findings_mod.reproduces(prop, f):
            lines.append(f"KNOWN-FINDING: property={pid} sig={f.sig} {f.what}")
    regress = Collector(prop, open_sigs)
    rdir = os.path.join(VERIF, "replays", "regress")
    for name in sorted(os.listdir(rdir)) if os.path.isdir(rdir) else []:
        if name.startswith(pid + "-") and name.endswith(".json"):
            with open(os.path.join(rdir, name)) as fh:
                payload = json.load(fh)
            regress.handle(payload["case"] if isinstance(payload, dict) and "case" in payload else payload)
    reg = regress.export()
    reg["shard_seed"] = -1
    reg["wall"] = 0
    return lines, reg


def merge(parts):
    m = {"evaluations": 0, "nontrivial": set(), "labels": collections.Counter(),
         "known_hits": collections.Counter(), "excluded": collections.Counter(), "buckets": {},
         "samples": [], "harness_errors": [], "n_harness_errors": 0, "checks": 0, "shard_seeds": []}
    for p in parts:
        m["evaluations"] += p["evaluations"]
        m["nontrivial"] |= p["nontrivial"]
        m["labels"].update(p["labels"])
        m["known_hits"].update(p["known_hits"])
        m["excluded"].update(p["excluded"])
        m["checks"] += p["checks"]
        m["n_harness_errors"] += p["n_harness_errors"]
        m["harness_errors"].extend(p["harness_errors"])
        m["shard_seeds"].append(p["shard_seed"])
        for s in p["samples"]:
            if len(m["samples"]) < 5:
                m["samples"].append(s)
        for k, b in p["buckets"].items():
            cur = m["buckets"].get(k)
            if cur is None:
                m["buckets"][k] = dict(b)
            else:
                cur["count"] += b["count"]
                if b["size"] < cur["size"]:
                    cur.update(case=b["case"], detail=b["detail"], size=b["size"])
    return m


def reduce_case(prop, case, key, open_sigs, max_evals=REDUCE_EVALS):
    """Greedy structural delta-debugging on the JSON case, bounded by evaluation count."""
    from .reduce import generic_reductions

    red = getattr(prop, "reductions", None) or generic_reductions
    evals = 0

    def still_fails(c):
        nonlocal evals
        evals += 1
        try:
            res = prop.check(c)
        except Exception:
            return False
        if res.harness_error:
            return False
        return any(f.key == key and not match_known(prop, f, open_sigs) for f in res.failures)

    improved = True
    while improved and evals < max_evals:
        improved = False
        for cand in red(case):
            if evals >= max_evals:
                break
            if still_fails(cand):
                case = cand
                improved = True
                break
    return case, evals


def write_evidence(prop, pid, tier, seed, merged, wall, violations, extra=None):
    cov = {
        "evaluations": merged["evaluations"],
        "distinct_nontrivial": len(merged["nontrivial"]),
        "rule": prop.RULE,
        "samples": merged["samples"] or ["(no non-trivial case in this run)"],
        "labels": dict(sorted(merged["labels"].items())),
        "known_hits": dict(sorted(merged["known_hits"].items())),
        "excluded": dict(sorted(merged["excluded"].items())),
        "oracle_checks": merged["checks"],
        "shard_seeds": merged["shard_seeds"],
        "unknown_buckets": {k: v["count"] for k, v in sorted(merged["buckets"].items())},
        "regression_replays": merged.get("regression_replays", 0),
    }
    if extra:
        cov.update(extra)
    ev = {
        "property_id": pid,
        "tier": tier,
        "seed": seed,
        "level": getattr(prop, "LEVEL", "exploration"),
        "coverage": cov,
        "assumptions": list(getattr(prop, "ASSUMPTIONS", [])),
        "wall_s": round(wall, 2),
        "violations": violations,
    }
    # evidence/<ID>.json describes runs against /repo itself; runs against a scratch copy (VERIF_REPO set to a
    # mutant / seeded worktree) are kept apart so that they can never be mistaken for, or committed as, evidence
    edir = os.path.join(VERIF, "evidence")
    if os.path.realpath(os.environ.get("VERIF_REPO", "/repo")) != "/repo":
        edir = os.path.join(VERIF, "evidence", ".scratch")
    os.makedirs(edir, exist_ok=True)
    path = os.path.join(edir, f"{pid}.json")
    tmp = path + ".tmp"
    with open(tmp, "w") as f:
        json.dump(ev, f, indent=1, sort_keys=True, default=str)
    os.replace(tmp, path)


def replay(pid, path):
    prop = load_prop(pid)
    fnd = findings_mod.load(pid)
    open_sigs = {f.sig for f in fnd}
    with open(path) as f:
        payload = json.load(f)
    case = payload["case"] if isinstance(payload, dict) and "case" in payload else payload
    res = prop.check(case)
    if res.harness_error:
        print("HARNESS-ERROR", res.harness_error)
        return 2
    rc = 0
    for f in res.failures:
        known = match_known(prop, f, open_sigs)
        if known:
            print(f"KNOWN-FINDING: property={pid} {known} :: {f.detail}")
        else:
            print(f"VIOLATION property={pid} replay={path}")
            print(f"  clause={f.key} detail={f.detail}")
            rc = 1
    if not res.failures:
        print(f"replay {path}: property {pid} holds on this case")
    return rc


def run(pid, tier, seed, jobs):
    t0 = time.time()
    prop = load_prop(pid)
    fnd = findings_mod.load(pid)
    open_sigs = {f.sig for f in fnd}
    rc = 0

    # 1. replay of known findings and regression inputs, 2. collect -- all inside forked workers:
    # the parent must not run polars before forking (its thread pool does not survive fork()).
    ctx = mp.get_context("fork")
    nshards = max(1, jobs)
    args = [(pid, tier, seed, i, nshards, open_sigs) for i in range(nshards)]
    with ctx.Pool(nshards) as pool:
        pre = pool.apply_async(_replays, ((pid, open_sigs),))
        parts = pool.map(_shard, args, chunksize=1)
        known_lines, reg = pre.get()
    for line in known_lines:
        print(line)
    merged = merge(parts + [reg])
    merged["shard_seeds"] = [x for x in merged["shard_seeds"] if x >= 0]
    merged["regression_replays"] = reg["evaluations"]

    # optional supplement (e.g. a coverage-guided campaign): extra cases and failures, same bucketing
    sup = getattr(prop, "supplement", None)
    if sup is not None:
        try:
            extra_cov = sup(tier, seed, jobs, merged, open_sigs)
        except Exception:
            extra_cov = {"supplement_error": traceback.format_exc()[-600:]}
        merged["supplement"] = extra_cov

    if merged["n_harness_errors"]:
        print(f"HARNESS-ERROR property={pid} count={merged['n_harness_errors']}", file=sys.stderr)
        for e in merged["harness_errors"][:3]:
            print(e, file=sys.stderr)
        write_evidence(prop, pid, tier, seed, merged, time.time() - t0, 0,
                       {"harness_errors": merged["n_harness_errors"]})
        return 2

    # 3. shrink unknown buckets and report
    outdir = os.path.join(VERIF, "replays", "out")
    os.makedirs(outdir, exist_ok=True)
    reported = 0
    for key in sorted(merged["buckets"], key=lambda k: (-merged["buckets"][k]["count"], k)):
        b = merged["buckets"][key]
        if reported >= MAX_BUCKETS_REPORTED:
            break
        case, evals = reduce_case(prop, b["case"], key, open_sigs)
        try:
            res = prop.check(case)
            detail = next((f.detail for f in res.failures if f.key == key), b["detail"])
        except Exception:
            detail = b["detail"]
        h = case_hash(case)[:10]
        path = os.path.join("replays", "out", f"{pid}-{key.replace('/', '-')[:60]}-{h}.json")
        with open(os.path.join(VERIF, path), "w") as f:
            json.dump({"property": pid, "signature": key, "detail": detail, "seed": seed, "tier": tier,
                       "occurrences": b["count"], "reduce_evals": evals, "case": case}, f, indent=1,
                      default=str)
        print(f"VIOLATION property={pid} replay={path}")
        print(f"  signature={key} occurrences={b['count']} detail={detail[:300]}")
        reported += 1
        rc = 1

    extra = {}
    if merged.get("supplement"):
        extra["supplement"] = merged["supplement"]
    hook = getattr(prop, "extra_evidence", None)
    if hook is not None:
        extra.update(hook(tier, merged) or {})
    write_evidence(prop, pid, tier, seed, merged, time.time() - t0, len(merged["buckets"]), extra)
    lab = ", ".join(f"{k}={v}" for k, v in sorted(merged["labels"].items())[:40])
    print(f"[{pid} {tier} seed={seed}] evaluations={merged['evaluations']} "
          f"distinct_nontrivial={len(merged['nontrivial'])} known_hits={sum(merged['known_hits'].values())} "
          f"unknown_buckets={len(merged['buckets'])} wall={time.time() - t0:.1f}s")
    if lab:
        print(f"  labels: {lab}")
    if merged["excluded"]:
        print(f"  excluded: {dict(merged['excluded'])}")
    return rc


def main(argv):
    import argparse

    ap = argparse.ArgumentParser()
    ap.add_argument("pid")
    ap.add_argument("tier", nargs="?", default="quick")
    ap.add_argument("--replay")
    a = ap.parse_args(argv)
    pid = a.pid.upper()
    tier = os.environ.get("VERIF_TIER") or a.tier
    if tier not in ("quick", "thorough"):
        print(f"unknown tier {tier}", file=sys.stderr)
        return 2
    seed = int(os.environ.get("VERIF_SEED", "1") or 1)
    jobs = int(os.environ.get("VERIF_JOBS", "16") or 16)
    try:
        if a.replay:
            return replay(pid, a.replay)
        return run(pid, tier, seed, jobs)
    except SystemExit:
        raise
    except Exception:
        traceback.print_exc()
        return 2


if __name__ == "__main__":
    sys.exit(main(sys.argv[1:]))
