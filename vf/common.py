"""Build -> encode -> parse pipeline shared by the document-level oracles."""
from __future__ import annotations

import traceback
from dataclasses import dataclass

from . import recipe as R
from .rtfread import Doc, read


@dataclass
class Outcome:
    built: object = None
    rtf: str | None = None
    doc: Doc | None = None
    build_error: str | None = None
    encode_error: tuple | None = None   # (exception type name, innermost rtflite frame, message)
    encode_exc: BaseException | None = None


def innermost_frame(exc) -> str:
    tb = traceback.extract_tb(exc.__traceback__)
    frames = [f for f in tb if "/rtflite/" in f.filename.replace("\\", "/")]
    if not frames:
        return "?"
    f = frames[-1]
    return f"{f.filename.replace(chr(92), '/').split('/rtflite/')[-1]}:{f.name}"


def run_recipe(recipe, parse=True, workdir=None) -> Outcome:
    out = Outcome()
    first_layout = recipe.get("relayout")
    try:
        if first_layout is not None:
            # history: the document is first rendered with another paper size / margins, then given the recipe's
            # rtf_page (a new RTFPage object) and rendered again; the oracles look at the second rendering
            first = dict(recipe, page=first_layout)
            del first["relayout"]
            out.built = R.build(first, workdir)
            out.built.recipe = recipe
        else:
            out.built = R.build(recipe, workdir)
    except Exception as e:  # generator produced something the library refuses
        out.build_error = f"{type(e).__name__}: {str(e)[:300]} @ {innermost_frame(e)}"
        return out
    try:
        if first_layout is not None:
            import rtflite as rtf
            out.built.doc.rtf_encode()
            out.built.doc.rtf_page = rtf.RTFPage(**R._kw(recipe.get("page") or {}))
        out.rtf = out.built.doc.rtf_encode()
    except Exception as e:
        out.encode_error = (type(e).__name__, innermost_frame(e), str(e)[:200])
        out.encode_exc = e
        return out
    if parse and isinstance(out.rtf, str):
        out.doc = read(out.rtf)
    return out


def pages_label(n: int) -> str:
    return f"pages={n if n < 4 else '4+'}"
