"""Build -> encode -> parse pipeline shared by the document-level oracles."""
from __future__ import annotations

import traceback
from dataclasses import dataclass

from . import recipe as R
from .rtfread import Doc, read


@dataclass
class Outcome:
    built: object = None
    rtf: str | None = None
    doc: Doc | None = None
    build_error: str | None = None
    encode_error: tuple | None = None   # (exception type name, innermost rtflite frame, message)
    encode_exc: BaseException | None = None


def innermost_frame(exc) -> str:
    tb = traceback.extract_tb(exc.__traceback__)
    frames = [f for f in tb if "/rtflite/" in f.filename.replace("\\", "/")]
    if not frames:
        return "?"
    f = frames[-1]
    return f"{f.filename.replace(chr(92), '/').split('/rtflite/')[-1]}:{f.name}"


def _strip_colours(spec):
    return {k: v for k, v in spec.items() if "color" not in k} if isinstance(spec, dict) else spec


def recolour_first(recipe):
    """The document as it was at its first rendering: the components named in recipe['recolour']['strip'] carry no colours yet."""
    import copy
    first = copy.deepcopy({k: v for k, v in recipe.items() if k != "recolour"})
    for comp in recipe["recolour"]["strip"]:
        if comp in ("body", "headers"):
            for sec in first.get("sections", []):
                if comp == "body":
                    sec["body"] = _strip_colours(sec.get("body", {}))
                elif isinstance(sec.get("headers"), list):
                    sec["headers"] = [_strip_colours(h) for h in sec["headers"]]
        elif first.get(comp) is not None:
            first[comp] = _strip_colours(first[comp])
    return first


_COMP_ATTR = {"title": "rtf_title", "subline": "rtf_subline", "footnote": "rtf_footnote", "source": "rtf_source",
              "page_header": "rtf_page_header", "page_footer": "rtf_page_footer", "body": "rtf_body", "headers": "rtf_column_header"}


def _flat(v):
    if isinstance(v, (list, tuple)):
        for x in v:
            yield from _flat(x)
    elif v is not None:
        yield v


def recolour_in_place(doc, fresh_doc, strip):
    """The user gives components of a live (already rendered) document their colours IN PLACE: every colour attribute of the
    named components is set to the (normalised) value the same component has in a freshly built document of the final
    recipe.  Returns False when the two documents do not have the same component structure (nothing is changed then)."""
    pairs = []
    for comp in strip:
        a, b = list(_flat(getattr(doc, _COMP_ATTR[comp], None))), list(_flat(getattr(fresh_doc, _COMP_ATTR[comp], None)))
        if len(a) != len(b) or any(type(x) is not type(y) for x, y in zip(a, b)):
            return False
        pairs += list(zip(a, b))
    for mine, theirs in pairs:
        for name in type(theirs).model_fields:
            if "color" in name:
                setattr(mine, name, getattr(theirs, name))
    return True


def run_recipe(recipe, parse=True, workdir=None) -> Outcome:
    out = Outcome()
    if recipe.get("recolour"):
        return _run_recoloured(recipe, parse, workdir, out)
    first_layout = recipe.get("relayout")
    try:
        if first_layout is not None:
            # history: the document is first rendered with another paper size / margins, then given the recipe's
            # rtf_page (a new RTFPage object) and rendered again; the oracles look at the second rendering
            first = dict(recipe, page=first_layout)
            del first["relayout"]
            out.built = R.build(first, workdir)
            out.built.recipe = recipe
        else:
            out.built = R.build(recipe, workdir)
    except Exception as e:  # generator produced something the library refuses
        out.build_error = f"{type(e).__name__}: {str(e)[:300]} @ {innermost_frame(e)}"
        return out
    try:
        if first_layout is not None:
            import rtflite as rtf
            out.built.doc.rtf_encode()
            out.built.doc.rtf_page = rtf.RTFPage(**R._kw(recipe.get("page") or {}))
        out.rtf = out.built.doc.rtf_encode()
    except Exception as e:
        out.encode_error = (type(e).__name__, innermost_frame(e), str(e)[:200])
        out.encode_exc = e
        return out
    if parse and isinstance(out.rtf, str):
        out.doc = read(out.rtf)
    return out


def _run_recoloured(recipe, parse, workdir, out) -> Outcome:
    """History: the document is built WITHOUT the colours of some components and rendered; the components then get their
    colours in place (mode 'in_place'), or a variant is derived with model_copy(update=...) (mode 'model_copy'), and the
    document is rendered again.  The oracles look at the second rendering, whose value is the recipe."""
    final = {k: v for k, v in recipe.items() if k != "recolour"}
    try:
        out.built = R.build(recolour_first(recipe), workdir)
        fresh = R.build(final, workdir)
        out.built.recipe = recipe
    except Exception as e:
        out.build_error = f"{type(e).__name__}: {str(e)[:300]} @ {innermost_frame(e)}"
        return out
    try:
        out.built.doc.rtf_encode()
        strip = recipe["recolour"]["strip"]
        if recipe["recolour"].get("mode") == "model_copy":
            upd = {_COMP_ATTR[c]: getattr(fresh.doc, _COMP_ATTR[c]) for c in strip}
            out.built.doc = out.built.doc.model_copy(update=upd)
        elif not recolour_in_place(out.built.doc, fresh.doc, strip):
            out.build_error = "recolour: component structure of the first and the final document differs"
            return out
        out.rtf = out.built.doc.rtf_encode()
    except Exception as e:
        out.encode_error = (type(e).__name__, innermost_frame(e), str(e)[:200])
        out.encode_exc = e
        return out
    if parse and isinstance(out.rtf, str):
        out.doc = read(out.rtf)
    return out


def pages_label(n: int) -> str:
    return f"pages={n if n < 4 else '4+'}"
