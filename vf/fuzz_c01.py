"""Coverage-guided supplement for C01 (thorough tier): the universal document strategy driven by libFuzzer through
atheris + Hypothesis' fuzz_one_input, with the C01 oracle inside the target.  Failures are recorded (not raised) so that
the campaign continues behind the first one; new signatures are appended to a JSON-lines file as they appear."""
from __future__ import annotations

import json
import os
import sys


def main():
    out_path, runs, seed = sys.argv[1], int(sys.argv[2]), int(sys.argv[3])
    import atheris

    with atheris.instrument_imports(include=["rtflite"]):
        import rtflite  # noqa: F401
        from rtflite.encoding import unified_encoder  # noqa: F401

    from hypothesis import HealthCheck, given, settings

    from vf.props import c01

    seen = set()
    stats = {"execs": 0, "nontrivial": 0, "failures": 0}

    @settings(database=None, deadline=None, suppress_health_check=list(HealthCheck), max_examples=10 ** 9)
    @given(c01.strategy("thorough"))
    def target(case):
        stats["execs"] += 1
        res = c01.check(case)
        if res.nontrivial:
            stats["nontrivial"] += 1
        for f in res.failures:
            stats["failures"] += 1
            if f.key not in seen:
                seen.add(f.key)
                with open(out_path, "a") as fh:
                    fh.write(json.dumps({"key": f.key, "detail": f.detail, "case": case}, default=str) + "\n")
        if stats["execs"] % 200 == 0:
            with open(out_path + ".stats", "w") as fh:
                json.dump(stats, fh)

    corpus = out_path + ".corpus"
    os.makedirs(corpus, exist_ok=True)
    atheris.Setup([sys.argv[0], f"-runs={runs}", f"-seed={seed}", "-max_len=8192", "-len_control=0", "-print_final_stats=0", corpus],
                  target.hypothesis.fuzz_one_input)
    try:
        atheris.Fuzz()
    finally:
        with open(out_path + ".stats", "w") as fh:
            json.dump(stats, fh)


if __name__ == "__main__":
    main()
