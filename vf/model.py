"""Content-based classification of parsed blocks by sentinel tags (DESIGN 3.3).

Roles:  title subline sublinehead header heading data fnrow fnpara srcrow srcpara pict para?
"""
from __future__ import annotations

from dataclasses import dataclass

from .rtfread import Doc, Para, Pict, Row


@dataclass
class Item:
    role: str
    block: object
    texts: list  # cell texts (rows) or [text]


def classify_block(b) -> Item | None:
    if isinstance(b, Pict):
        return Item("pict", b, [])
    if isinstance(b, Para):
        t = b.text
        if t == "":
            return None
        for pre, role in (("@T", "title"), ("@U", "subline"), ("@B", "sublinehead"),
                          ("@F", "fnpara"), ("@S", "srcpara")):
            if t.startswith(pre):
                return Item(role, b, [t])
        return Item("para?", b, [t])
    if isinstance(b, Row):
        ts = [c.text for c in b.cells]
        if all(t.startswith("@H") or t.startswith("@N") for t in ts):
            return Item("header", b, ts)
        if len(ts) == 1:
            if ts[0].startswith("@G"):
                return Item("heading", b, ts)
            if ts[0].startswith("@F"):
                return Item("fnrow", b, ts)
            if ts[0].startswith("@S"):
                return Item("srcrow", b, ts)
        return Item("data", b, ts)
    return None


def classify(doc: Doc) -> list:
    pages = []
    for pg in doc.pages:
        items = []
        for b in pg:
            it = classify_block(b)
            if it is not None:
                items.append(it)
        pages.append(items)
    return pages


def roles(page_items) -> list:
    return [it.role for it in page_items]
