"""Fresh-interpreter baseline: encode an (unshared, equal-valued) recipe in a newly spawned python."""
from __future__ import annotations

import hashlib
import json
import os
import subprocess
import sys

CODE = r"""
import json, sys
recipe = json.load(sys.stdin)
from vf import recipe as R
try:
    doc = R.build(recipe).doc
except Exception as e:
    print(json.dumps({"build_exc": type(e).__name__ + ": " + str(e)[:200]})); sys.exit(0)
try:
    print(json.dumps({"ok": doc.rtf_encode()}))
except Exception as e:
    print(json.dumps({"exc": type(e).__name__}))
"""
_mem = {}


def baseline(recipe) -> dict:
    key = hashlib.sha1(json.dumps(recipe, sort_keys=True).encode()).hexdigest()
    if key in _mem:
        return _mem[key]
    repo = os.environ.get("VERIF_REPO", "/repo")
    cdir = os.path.join(os.environ.get("VERIF_WORK") or os.environ.get("TMPDIR") or "/tmp", "baseline")
    os.makedirs(cdir, exist_ok=True)
    # the cache is private to this run (VERIF_WORK is removed by ./check) and keyed by repo path + recipe
    path = os.path.join(cdir, hashlib.sha1((repo + key).encode()).hexdigest() + ".json")
    if os.path.exists(path):
        try:
            with open(path) as f:
                _mem[key] = json.load(f)
            return _mem[key]
        except Exception:
            pass
    env = dict(os.environ)
    # a fresh interpreter has its own string-hash seed: derive one from the recipe (deterministic, never the parent's 0)
    env["PYTHONHASHSEED"] = str(1 + int(key[:6], 16) % 4000)
    env["PYTHONPATH"] = f"{repo}/src:{os.path.dirname(os.path.dirname(os.path.abspath(__file__)))}:" + env.get("PYTHONPATH", "")
    p = subprocess.run([sys.executable, "-c", CODE], input=json.dumps(recipe), capture_output=True, text=True, env=env, timeout=300)
    lines = [ln for ln in p.stdout.splitlines() if ln.startswith("{")]
    if p.returncode != 0 or not lines:
        out = {"spawn_error": (p.stderr or p.stdout)[-500:]}
    else:
        out = json.loads(lines[-1])
    tmp = path + f".{os.getpid()}.tmp"
    with open(tmp, "w") as f:
        json.dump(out, f)
    os.replace(tmp, path)
    _mem[key] = out
    return out
