"""C01 - every accepted document encodes to well-formed RTF."""
from __future__ import annotations

from dataclasses import replace

from hypothesis import strategies as st

from .. import gen
from .. import recipe as R
from ..common import pages_label, run_recipe
from ..engine import Result

ID = "C01"
LEVEL = "exploration"
RULE = ("Universal document strategy (single tables, 2-4 section documents, figure documents; every optional "
        "component present/absent; header modes default/explicit/own-width/multi-row/none/as_colheader=False; "
        "as_table flags; 27 placement triples; a class of neighbouring-type values for one setting (\"9\", 10.0, 1.5, True, 'Red' ...: "
        "refused at construction = excluded, accepted = must encode); orientation and custom paper; nrow 1-50; page_by/subline_by/"
        "group_by/new_page/pageby_row/pageby_header; attribute shapes scalar/per-column/per-row/matrix; integer "
        "and half-point sizes) plus an exhaustive boolean/enum skeleton sweep. Oracle: rtf_encode() returns str "
        "(ValueError only if a group_by prefix key is non-contiguous by an independent reference); reader "
        "reports exactly one balanced top-level {\\rtf1 group, nothing after it, no lexical error, every row "
        "#cellx==#cell>=1 with positive non-decreasing boundaries. Non-trivial = at least two of {multi-page, "
        "column removed, non-default header mode, footnote/source as table, matrix attribute, multi-section, "
        "figure}; distinct by sha1 of recipe.")
ASSUMPTIONS = [
    "text free of raw RTF metacharacters except the default page-number field (as the quantifier says)",
    "group_by / page_by / subline_by on disjoint columns (overlap is documented as unsupported)",
]

CFG = gen.Cfg(max_cols=6, max_rows=30, nrow_range=(1, 50), allow_group_by=True, half_points=True,
              as_colheader_false=True, long_text=0.15, noncontig=0.3, group_by_p=4,
              header_modes=("default", "explicit", "explicit_w", "multi", "none", "explicit_all"), multi_grouping=True,
              numeric_page_by=0.3, page_by_return=0.2, subline_return=0.2, paper_range=(4.5, 60.0), group_blanks=True, null_columns=0.06, last_row_option=True)
CFG_SMALL = replace(CFG, max_rows=12, nrow_range=(1, 8))


# values of a neighbouring type for one setting: whether construction accepts them is the library's choice (pydantic
# coerces "9" and 10.0, refuses 1.5 for an int) - but whatever it accepts must encode
BOUNDARY = {
    ("body", "text_space"): [1.5, 2.0, "2", True, 1.15], ("body", "text_font_size"): ["9", True, "10.5"], ("body", "text_indent_left"): [12.5, 12.0, "30"],
    ("body", "border_width"): [7.5, "15", 20.0], ("page", "nrow"): [10.0, "12", 7.5], ("body", "text_font"): [1.0, "1", True, 2.5],
    ("body", "cell_height"): ["0.2", 1], ("title", "text_font_size"): ["12", 12], ("title", "text_space"): [1.5, 2.0], ("body", "text_hyphenation"): ["yes", 1, 0],
    ("page", "col_width"): ["6", 6], ("body", "text_space_before"): [7.5, "15"], ("footnote", "text_space"): [1.5], ("page", "margin"): [[1, 1, 1, 1, 1, 1], ["1"] * 6],
    ("body", "text_justification"): ["C", "L"], ("body", "border_left"): ["Single", " single"], ("page", "orientation"): ["Portrait"],
    ("body", "text_color"): ["Red", "RED", " red"], ("body", "cell_vertical_justification"): ["Top"],
}


@st.composite
def _boundary(draw):
    rec = draw(gen.table_recipe(CFG_SMALL))
    (comp, attr), values = draw(st.sampled_from(sorted(BOUNDARY.items())))
    v = draw(st.sampled_from(values))
    if comp == "body":
        rec["sections"][0]["body"][attr] = v
    elif comp == "page":
        rec.setdefault("page", {})[attr] = v
    else:
        rec.setdefault(comp, {"text": ["@" + comp[0].upper() + "0"]})
        if rec[comp] is None:
            rec[comp] = {"text": ["@" + comp[0].upper() + "0"]}
        rec[comp][attr] = v
    rec["may_refuse"] = f"{comp}.{attr}={v!r}"
    return rec


def strategy(tier):
    return st.one_of(gen.universal(CFG_SMALL), gen.universal(CFG), gen.universal(CFG_SMALL), gen.universal(CFG), _boundary())


def budget(tier):
    return 200 if tier == "quick" else 5000


def enumerate_cases(tier):
    """Boolean/enum skeleton on a fixed 7-row frame."""
    import itertools

    hdrs = ("default", "explicit", "multi", "none", "nocolheader")
    tables = (None, True, False)
    strategies = ("plain", "page_by", "page_by_new", "page_by_first_row", "subline", "group_by")
    placements = ("first", "last", "all")
    step = 9 if tier == "quick" else 1
    k = 0
    for hdr, fn, src, strat, pt, pf, ps, pbh in itertools.product(hdrs, tables, tables, strategies, placements,
                                                                  placements, placements, (True, False)):
        k += 1
        if k % step:
            continue
        yield skeleton(hdr, fn, src, strat, pt, pf, ps, pbh)
    # column names that the library (or polars) may use for bookkeeping columns of its own; paper no larger than the default margins
    reserved = ["page", "row_index", "index", "data_rows", "total_rows", "literal", "value", "column", "len", "count", "group", "key", "__NULL__",
                "is_group_start", "page_by", "subline_by", "new_page", "rn", "idx", "tmp", "_group_key", "column_0", "", " "]
    for name in reserved:
        for strat in ("plain", "page_by", "subline", "group_by"):
            rec = skeleton("default", None, None, strat, "all", "last", "last", True)
            rec["sections"][0]["df"]["cols"][1]["name"] = name        # a displayed data column
            rec["page"] = dict(rec.get("page") or {}, nrow=4)
            yield rec
            rec = skeleton("default", None, None, strat, "all", "last", "last", True)
            if strat != "plain":
                old = rec["sections"][0]["df"]["cols"][0]["name"]
                rec["sections"][0]["df"]["cols"][0]["name"] = name    # the grouping column itself
                for key in ("page_by", "subline_by", "group_by"):
                    if rec["sections"][0]["body"].get(key) == [old]:
                        rec["sections"][0]["body"][key] = [name]
                yield rec
    for w, h, orient in ((5, 3, "portrait"), (6, 3, "landscape"), (3, 3, "portrait"), (2.3, 11, "portrait"), (8.5, 2, "portrait"), (2.5, 1, "portrait"),
                         (11, 2.5, "landscape"), (3.25, 3.25, "landscape")):
        for strat in ("plain", "page_by", "subline"):
            rec = skeleton("default", True, None, strat, "all", "last", "last", True)
            rec["page"] = dict(rec.get("page") or {}, width=w, height=h, orientation=orient)
            yield rec


def skeleton(hdr, fn, src, strat, pt, pf, ps, pbh):
    n = 7
    cols = [{"name": "@N0", "dtype": "str", "values": [f"@G0:v{i // 3}" for i in range(n)]},
            {"name": "@N1", "dtype": "str", "values": [f"r{i}" for i in range(n)]},
            {"name": "@N2", "dtype": "float", "values": [None if i == 2 else i / 4 for i in range(n)]}]
    body = {"pageby_header": pbh}
    if strat.startswith("page_by"):
        body["page_by"] = ["@N0"]
    if strat == "page_by_new":
        body["new_page"] = True
    if strat == "page_by_first_row":
        body.update(new_page=True, pageby_row="first_row")
    if strat == "subline":
        body["subline_by"] = ["@N0"]
    if strat == "group_by":
        body["group_by"] = ["@N0"]
    sec = {"df": {"cols": cols}, "body": body}
    nd = len(R.displayed_columns(sec))
    if hdr == "explicit":
        sec["headers"] = [{"text": [f"@H0.{c}" for c in range(nd)]}]
    elif hdr == "multi":
        sec["headers"] = [{"text": ["@H0.0"], "col_rel_width": [1]}, {"text": [f"@H1.{c}" for c in range(nd)]}]
    elif hdr == "none":
        sec["headers"] = "none"
    else:
        sec["headers"] = "default"
        if hdr == "nocolheader":
            body["as_colheader"] = False
    rec = {"kind": "table", "page": {"nrow": 5, "page_title": pt, "page_footnote": pf, "page_source": ps},
           "sections": [sec], "title": {"text": ["@T0"]}}
    if fn is not None:
        rec["footnote"] = {"text": ["@F0"], "as_table": fn}
    if src is not None:
        rec["source"] = {"text": ["@S0"], "as_table": src}
    return rec


def prefix_noncontiguous(sec) -> bool:
    gb = R.as_list(sec.get("body", {}).get("group_by"))
    if not gb:
        return False
    cols = [R.column(sec, g)["values"] for g in gb]
    n = R.nrows(sec)
    for lvl in range(1, len(gb) + 1):
        seen, cur = set(), object()
        for i in range(n):
            key = tuple(c[i] for c in cols[:lvl])
            if key != cur:
                if key in seen:
                    return True
                seen.add(key)
                cur = key
    return False


def features(case, npages):
    f = set()
    if npages >= 2:
        f.add("multi-page")
    if case["kind"] == "multi":
        f.add("multi-section")
    if case["kind"] == "figure":
        f.add("figure")
    for sec in case.get("sections", []):
        if R.removed_columns(sec):
            f.add("column-removed")
        if sec.get("headers", "default") != "default" or sec.get("body", {}).get("as_colheader") is False:
            f.add("header-mode")
        for v in sec.get("body", {}).values():
            if isinstance(v, list) and v and isinstance(v[0], list):
                f.add("matrix-attr")
    fn, src = case.get("footnote"), case.get("source")
    if (fn and fn.get("as_table", True)) or (src and src.get("as_table", False)):
        f.add("fn/src-as-table")
    return f


def check(case) -> Result:
    res = Result()
    out = run_recipe(case)
    if out.build_error:
        if case.get("may_refuse") and out.build_error.split(":")[0] in ("ValidationError", "ValueError", "TypeError"):
            res.excluded = "refused_at_construction"      # a neighbouring-type value the constructor does not take
            return res
        res.harness_error = "recipe does not build: " + out.build_error
        return res
    res.checks = 1
    labels = ["kind=" + case["kind"]] + (["boundary_value_accepted"] if case.get("may_refuse") else [])
    if out.encode_error:
        etype, frame, msg = out.encode_error
        noncontig = any(prefix_noncontiguous(s) for s in case.get("sections", []))
        if etype == "ValueError" and noncontig:
            labels.append("refused=noncontiguous_group_by")
            res.labels = labels
            res.nontrivial = True
            return res
        res.fail("encode_raises", f"{etype}@{frame}", msg)
        res.labels = labels + ["encode_raised"]
        return res
    if not isinstance(out.rtf, str):
        res.fail("encode_returns", f"not_str:{type(out.rtf).__name__}", "")
        return res
    d = out.doc
    for e in d.lex:
        res.fail("lexical", e[0], repr(e)[:200])
        break
    seen = set()
    for a in d.anom:
        if a[0] not in seen:
            seen.add(a[0])
            res.fail("structure", a[0], repr(a)[:200])
    nrows = sum(1 for pg in d.pages for b in pg if getattr(b, "kind", "") == "row")
    res.checks += nrows + 3
    npages = len(d.pages)
    feats = features(case, npages)
    labels.append(pages_label(npages))
    labels += ["feat=" + f for f in sorted(feats)]
    res.labels = labels
    res.nontrivial = len(feats) >= 2
    return res


def supplement(tier, seed, jobs, merged, open_sigs):
    """Thorough tier: coverage-guided campaign (atheris / libFuzzer driving the same Hypothesis strategy through
    fuzz_one_input, rtflite instrumented for coverage), 8 independent processes, bounded by run count."""
    if tier != "thorough":
        return None
    import json
    import os
    import subprocess
    import sys

    try:
        import atheris  # noqa: F401
    except Exception as e:
        return {"skipped": f"atheris not importable: {e}"}
    work = os.environ.get("VERIF_WORK") or os.environ.get("TMPDIR") or "/tmp"
    n = max(1, min(8, jobs))
    runs = 12000
    procs = []
    for k in range(n):
        out = os.path.join(work, f"fuzz{k}.jsonl")
        procs.append((out, subprocess.Popen([sys.executable, "-m", "vf.fuzz_c01", out, str(runs), str(seed * 100 + k + 1)],
                                            stdout=subprocess.DEVNULL, stderr=subprocess.DEVNULL)))
    execs = nontriv = 0
    from ..engine import match_known, Failure
    for out, p in procs:
        try:
            p.wait(timeout=3600)
        except Exception:
            p.kill()
        if os.path.exists(out + ".stats"):
            with open(out + ".stats") as fh:
                st_ = json.load(fh)
            execs += st_["execs"]
            nontriv += st_["nontrivial"]
        if os.path.exists(out):
            with open(out) as fh:
                for line in fh:
                    rec = json.loads(line)
                    clause, _, sig = rec["key"].partition("/")
                    if match_known(sys.modules[__name__], Failure(clause, sig, rec["detail"]), open_sigs):
                        continue
                    b = merged["buckets"].setdefault(rec["key"], {"count": 0, "case": rec["case"], "detail": rec["detail"],
                                                                  "size": len(json.dumps(rec["case"], default=str))})
                    b["count"] += 1
    merged["evaluations"] += execs
    return {"engine": "atheris 3.1 / libFuzzer, hypothesis fuzz_one_input, instrument_imports(include=['rtflite'])", "processes": n,
            "runs_per_process": runs, "valid_executions": execs, "nontrivial_executions": nontriv}
