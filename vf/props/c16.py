"""C16 - figures are embedded byte-exactly, one per page, at the configured size."""
from __future__ import annotations

from hypothesis import strategies as st

from .. import gen
from ..common import run_recipe
from ..engine import Result
from ..model import classify
from ..rtfread import Pict

ID = "C16"
LEVEL = "exploration"
RULE = ("Figure documents with 1-6 files: PNG (valid signature + IHDR with arbitrary legal dimensions up to 2^31-1 + "
        "random tail), JPEG (SOI, random APPn/COM/DQT/DHT segments whose payloads may contain 0xFF, SOF0/1/2 with "
        "arbitrary 16-bit dimensions, random tail; enumerated: SOF marker behind 30-190 KB of metadata segments), EMF (random bytes); "
        "enumerated documents of 4-6 MiB (largest file first); suffixes .png .PNG .jpg .jpeg .JPG .emf; "
        "payload lengths incl. residues 0, 1, 39, 40, 41, 79, 80, 81 (mod 40) around the 80-hex-character line break; "
        "fig_width / fig_height scalar or lists shorter / equal / longer than the figure list; all alignments; the 27 "
        "placement triples; with/without title, subline, paragraph footnote and source. Oracle on the parsed picture "
        "destinations: count and order equal the file list, blip keyword matches the suffix format, hex payload "
        "decodes to the file's exact bytes, \\picw/\\pich equal the generated PNG / JPEG dimensions (EMF: \\picw : \\pich = configured width : height), |\\picwgoal - w x "
        "1440| < 1 with sizes taken positionally and the last value reused, exactly one picture per page, "
        "alignment keyword, and title / footnote / source on the pages selected by the placement options. "
        "Non-trivial = >=2 figures or a size list shorter than the figure list.")
ASSUMPTIONS = ["all cases of one worker process reuse the same file paths with new content (history over the file system)", "EMF files carry no dimensions the generator controls: only display sizes are asserted for them"]
BLIP = {"png": "pngblip", "jpeg": "jpegblip", "emf": "emfblip"}
FMT = {".png": "png", ".jpg": "jpeg", ".jpeg": "jpeg", ".emf": "emf"}
CFG = gen.Cfg(attrs=False, page_geometry=True, page_borders=False)


def strategy(tier):
    return gen.figure_recipe(CFG)


def budget(tier):
    return 400 if tier == "quick" else 4000


def enumerate_cases(tier):
    """Payload lengths 0..170 bytes (every residue around the 40-byte hex line) x 3 formats."""
    step = 3 if tier == "quick" else 1
    png_head = b"\x89PNG\r\n\x1a\n" + (13).to_bytes(4, "big") + b"IHDR" + (300).to_bytes(4, "big") + (200).to_bytes(4, "big") + b"\x08\x02\x00\x00\x00" + bytes(4)
    for n in range(0, 171, step):
        body = bytes((i * 37 + 11) % 256 for i in range(n))
        yield {"kind": "figure", "page": {"nrow": 40}, "figure": {"files": [
            {"suffix": ".emf", "stem": "a", "hex": body.hex(), "format": "emf", "w": None, "h": None},
            {"suffix": ".png", "stem": "b", "hex": (png_head + body).hex(), "format": "png", "w": 300, "h": 200},
        ], "fig_width": [2.0], "fig_height": [1.5, 3.0, 9.0]}}
    # the same path listed more than once (overview, detail, overview again as a thumbnail): sizes, alignment and pages are positional
    a = {"suffix": ".png", "stem": "same", "hex": (png_head + b"overview").hex(), "format": "png", "w": 300, "h": 200}
    b = {"suffix": ".jpg", "stem": "other", "hex": jpeg_with_metadata(640, 480, [20], tail=b"\xff\xd9").hex(), "format": "jpeg", "w": 640, "h": 480}
    e = {"suffix": ".emf", "stem": "vec", "hex": bytes(range(60)).hex(), "format": "emf", "w": None, "h": None}
    for files in ([a, a], [a, b, a], [a, a, a, b], [e, e], [b, e, b, e], [a, b, b]):
        for fw, fh in (([6.0, 2.0, 3.0, 1.0], [4.5, 1.5, 2.0, 0.75]), ([6.0, 2.0], 3.0), (4.0, [1.0, 2.0, 3.0]), (5.0, 4.0)):
            yield {"kind": "figure", "page": {"nrow": 40}, "figure": {"files": list(files), "fig_width": fw, "fig_height": fh}}
    # listed paths that are symbolic links into a store whose file names carry another suffix or none: format, bytes and pixel size
    # belong to the path the user named
    for files in ([dict(a, link_target="")], [dict(b, link_target=".emf"), dict(a, link_target=".bin")], [dict(e, link_target=".png"), a],
                  [dict(a, link_target=".jpg"), dict(b, link_target=".png")]):
        yield {"kind": "figure", "page": {"nrow": 40}, "figure": {"files": list(files), "fig_width": 4.0, "fig_height": [3.0, 2.0]}}
    yield from big_cases(tier)


def jpeg_with_metadata(w, h, seg_sizes, tail=b""):
    """A JPEG whose SOF marker follows metadata segments of the given payload sizes (EXIF / XMP / ICC in APP1 / APP2)."""
    out = bytearray(b"\xff\xd8")
    for k, n in enumerate(seg_sizes):
        payload = bytes((k * 31 + i * 7) % 256 for i in range(n))
        out += bytes([0xFF, (0xE1, 0xE2, 0xE2, 0xED)[k % 4]]) + (n + 2).to_bytes(2, "big") + payload
    payload = bytes([8]) + h.to_bytes(2, "big") + w.to_bytes(2, "big") + bytes([3, 1, 0x11, 0, 2, 0x11, 1, 3, 0x11, 1])
    out += bytes([0xFF, 0xC0]) + (len(payload) + 2).to_bytes(2, "big") + payload + tail
    return bytes(out)


def big_cases(tier):
    """Pictures far above any buffer / batching threshold: JPEG headers behind 30-190 KB of metadata, and documents whose
    files add up to several MiB (largest first, so a concurrent or chunked reader finishes them out of order)."""
    for sizes in ([30000], [65000], [40000, 40000], [65533, 65533, 60000]):
        data = jpeg_with_metadata(1234, 777, sizes, tail=b"\xff\xd9")
        yield {"kind": "figure", "page": {"nrow": 40}, "figure": {"files": [
            {"suffix": ".jpg", "stem": "meta", "hex": data.hex(), "format": "jpeg", "w": 1234, "h": 777}], "fig_width": 4.0, "fig_height": 3.0}}
    png_head = lambda w, h: b"\x89PNG\r\n\x1a\n" + (13).to_bytes(4, "big") + b"IHDR" + w.to_bytes(4, "big") + h.to_bytes(4, "big") + b"\x08\x02\x00\x00\x00" + bytes(4)
    mib = 1 << 20
    for lens in ([12 * mib, 2 * mib, 300], [9 * mib, 400, 200, 100]) if tier == "thorough" else ([16 * mib, mib, 300], [16 * mib, 200, 2 * mib, 100]):
        files = []
        for k, n in enumerate(lens):
            body = (bytes([k + 1]) * 251 + bytes(range(5))) * (n // 256 + 1)
            files.append({"suffix": ".png", "stem": f"big{k}", "hex": (png_head(100 + k, 50 + k) + body[:n]).hex(), "format": "png", "w": 100 + k, "h": 50 + k})
        yield {"kind": "figure", "page": {"nrow": 40}, "figure": {"files": files, "fig_width": 3.0, "fig_height": 2.0}}


def size_at(spec, i, default=5.0):
    if spec is None:
        return default
    if isinstance(spec, list):
        return spec[i] if i < len(spec) else spec[-1]
    return spec


def check(case) -> Result:
    res = Result()
    # every case of this worker process writes its files under the same paths (fig0.png, ...): the same path
    # with new content is part of the domain (stale caches keyed by path show up as wrong payloads)
    import os
    wd = os.path.join(os.environ.get("VERIF_WORK") or os.environ.get("TMPDIR") or "/tmp", f"c16_{os.getpid()}")
    os.makedirs(wd, exist_ok=True)
    out = run_recipe(case, workdir=wd)
    if out.build_error:
        if out.build_error.split(":")[0] in ("ValueError", "ValidationError"):
            # every generated figure document is in the property's domain (existing files, positive sizes, lists of any length)
            res.fail("construction", "valid_figure_document_refused", out.build_error[:200])
            return res
        res.harness_error = "recipe does not build: " + out.build_error
        return res
    if out.encode_error:
        res.fail("encode_raises", out.encode_error[0] + "@" + out.encode_error[1], out.encode_error[2])
        return res
    d = out.doc
    if not d.ok():
        res.fail("malformed", (d.lex + d.anom)[0][0], repr((d.lex + d.anom)[0])[:200])
        return res
    fig = case["figure"]
    files = fig["files"]
    picts = [b for pg in d.pages for b in pg if isinstance(b, Pict)]
    res.checks += 1
    if len(picts) != len(files):
        res.fail("count", "pictures_vs_files", f"{len(picts)} pictures for {len(files)} files")
        return res
    per_page = [sum(1 for b in pg if isinstance(b, Pict)) for pg in d.pages]
    if per_page != [1] * len(files):
        res.fail("paging", "not_one_per_page", f"pictures per page {per_page}")
    align = {"left": "l", "center": "c", "right": "r"}[fig.get("fig_align", "center")]
    for i, (p, f) in enumerate(zip(picts, files)):
        raw = bytes.fromhex(f["hex"])
        fmt = FMT[f["suffix"].lower()]
        res.checks += 6
        if p.blip != BLIP[fmt]:
            res.fail("blip", f"{f['suffix']}", f"figure {i}: \\{p.blip} for suffix {f['suffix']}")
        if not p.hex_ok:
            res.fail("payload", "not_hex", f"figure {i}")
        elif p.data != raw:
            kind = "length" if len(p.data) != len(raw) else "content"
            res.fail("payload", f"{kind}/mod40={len(raw) % 40}", f"figure {i}: {len(p.data)} bytes embedded, file has {len(raw)}")
        if fmt in ("png", "jpeg"):
            if (p.kw.get("picw"), p.kw.get("pich")) != (f["w"], f["h"]):
                res.fail("pixel_dimensions", fmt, f"figure {i}: \\picw{p.kw.get('picw')}\\pich{p.kw.get('pich')} vs image {f['w']}x{f['h']}")
        w, h = size_at(fig.get("fig_width"), i), size_at(fig.get("fig_height"), i)
        if fmt == "emf":
            # no pixel header to read: whatever resolution the library assumes, the source size it writes must have
            # the aspect of the configured display size (each of \picw, \pich is off by less than one unit)
            pw, ph = p.kw.get("picw"), p.kw.get("pich")
            if not pw or not ph or pw <= 0 or ph <= 0:
                res.fail("pixel_dimensions", "emf/missing", f"figure {i}: \\picw{pw}\\pich{ph}")
            elif abs((pw / ph) / (w / h) - 1) > 1.0 / pw + 1.0 / ph + 1e-9:
                res.fail("pixel_dimensions", "emf/aspect", f"figure {i}: \\picw{pw}\\pich{ph} for a {w} x {h} in figure")
        gw, gh = p.kw.get("picwgoal"), p.kw.get("pichgoal")
        if gw is None or abs(gw - w * 1440) >= 1 or gh is None or abs(gh - h * 1440) >= 1:
            short = (isinstance(fig.get("fig_width"), list) and i >= len(fig["fig_width"])) or (isinstance(fig.get("fig_height"), list) and i >= len(fig["fig_height"]))
            res.fail("display_size", "beyond_list_end" if short else "positional", f"figure {i}: goal {gw}x{gh} twips vs {w}x{h} in")
        if p.pprops.get("just") != align:
            res.fail("alignment", fig.get("fig_align", "center"), f"figure {i}: paragraph alignment {p.pprops.get('just')!r}")
    # placement of title / footnote / source
    page = case.get("page") or {}
    np_ = len(d.pages)
    opts = {"title": page.get("page_title", "all"), "subline": page.get("page_title", "all"), "footnote": page.get("page_footnote", "last"),
            "source": page.get("page_source", "last")}
    roles = {"title": "title", "subline": "subline", "footnote": "fnpara", "source": "srcpara"}
    for i, items in enumerate(classify(d)):
        rl = [it.role for it in items]
        for comp, opt in opts.items():
            want = bool(case.get(comp)) and (opt == "all" or (opt == "first" and i == 0) or (opt == "last" and i == np_ - 1))
            res.checks += 1
            if (rl.count(roles[comp]) == 1) != want or rl.count(roles[comp]) > 1:
                res.fail("placement", f"{comp}/{opt}", f"page {i + 1}/{np_}: roles {rl}")
        order = [r for r in rl if r in ("title", "subline", "pict", "fnpara", "srcpara")]
        rank = {"title": 0, "subline": 1, "pict": 2, "fnpara": 3, "srcpara": 4}
        if [rank[r] for r in order] != sorted(rank[r] for r in order):
            res.fail("placement", "order", f"page {i + 1}: {rl}")
    short_list = any(isinstance(fig.get(k), list) and len(fig[k]) < len(files) for k in ("fig_width", "fig_height"))
    res.labels = [f"figures={min(len(files), 4)}", "short_size_list" if short_list else "full_sizes"] + sorted({"fmt=" + FMT[f["suffix"].lower()] for f in files})
    res.nontrivial = len(files) >= 2 or short_list
    return res
