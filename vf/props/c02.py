"""C02 - no data cell is lost, duplicated, reordered or altered (round-trip through the reader)."""
from __future__ import annotations

from dataclasses import replace

from hypothesis import strategies as st

from .. import gen
from .. import recipe as R
from ..common import pages_label, run_recipe
from ..engine import Result
from ..model import classify

ID = "C02"
LEVEL = "exploration"
RULE = ("Hypothesis-generated table / multi-section recipes (1-6 columns, 0-40 rows, str/int/float with nulls, "
        "leading/trailing blanks, dictionary words, wrapping cells; nrow 1-50; plain / page_by (new_page T/F, "
        "pageby_row column/first_row, nested, dividers, 30 % with a value returning non-adjacently: S1 S1 S2 S1) / subline_by / subline_by+page_by; all header modes, "
        "footnote/source variants; text_convert on with trigger-free alphabet, off with ^ _ >= <=, or per original column with the trigger characters in the verbatim columns only) plus an "
        "exhaustive sweep rows 0..24 x nrow 1..12 x 6 strategies, and a sweep over every placement of two consumed columns among five x every per-column text_convert vector. Oracle: parsed data rows of all pages "
        "concatenated == DataFrame rows (display text, null->'') restricted to displayed columns, both "
        "directions. Non-trivial = >=2 pages, or >=1 removed column, or >=2 sections; distinct by sha1 of recipe.")
ASSUMPTIONS = [
    "rows are classified by sentinel tags: data strings never start with '@'",
    "display text of a value is Python str(value) of the polars row value, '' for null",
    "ASCII-only text (Unicode fidelity is C10); group_by absent (C13)",
]

CFG_ON = gen.Cfg(max_cols=6, max_rows=40, nrow_range=(1, 50), allow_group_by=False, half_points=False,
                 as_colheader_false=False, long_text=0.2, subline_return=0.3, page_by_return=0.3, group_blanks=True)
CFG_OFF = replace(CFG_ON, alphabet=gen.ALPHA_CONVERT_OFF, convert_off_body=True)
CFG_SMALL = replace(CFG_ON, max_rows=14, nrow_range=(1, 9))
# text_convert per original column: verbatim columns carry ^ _ >= <=, converting columns (and the group keys) do not
CFG_PERCOL = replace(CFG_SMALL, convert_per_column=True, max_page_by=3)


def strategy(tier):
    return st.one_of(
        gen.table_recipe(CFG_SMALL), gen.table_recipe(CFG_SMALL), gen.table_recipe(CFG_ON),
        gen.table_recipe(CFG_OFF), gen.multi_recipe(CFG_SMALL), gen.multi_recipe(replace(CFG_SMALL, multi_grouping=True)),
        gen.table_recipe(CFG_PERCOL),
    )


def budget(tier):
    return 150 if tier == "quick" else 4000


def enumerate_cases(tier):
    rows_max = 12 if tier == "quick" else 24
    nrows = (1, 2, 3, 5, 8) if tier == "quick" else tuple(range(1, 13))
    strategies = ("plain", "page_by", "page_by_new", "page_by_first_row", "subline", "subline+page_by")
    for n in range(0, rows_max + 1):
        for nrow in nrows:
            for s in strategies:
                yield sweep_case(n, nrow, s)
    # per-column text_convert x every placement of two consumed columns among five x every flag vector
    import itertools
    for (a, b), mode in itertools.product(itertools.permutations(range(5), 2), ("nested", "subline+page_by")):
        for k, flags in enumerate(itertools.product((True, False), repeat=5)):
            if tier == "quick" and (k + a + b) % 2:
                continue
            yield percol_case(a, b, mode, list(flags))


TRIGGERS = ["kg/m^2", "log_10", "x>=65", "y<=18", "x_i^2"]


def percol_case(a, b, mode, flags, n=5, ncol=5):
    cols = []
    for j in range(ncol):
        if j == a:
            vals = [f"@G0:v{i // 3}" for i in range(n)] if mode == "nested" else [f"@B0:v{i // 3}" for i in range(n)]
        elif j == b:
            vals = [f"@G{1 if mode == 'nested' else 0}:v{i // 2}" for i in range(n)]
        else:
            vals = [f"r{i}c{j}" + ("" if flags[j] else " " + TRIGGERS[(i + j) % len(TRIGGERS)]) for i in range(n)]
        cols.append({"name": f"@N{j}", "dtype": "str", "values": vals})
    body = {"text_convert": flags}
    if mode == "nested":
        body["page_by"] = [f"@N{a}", f"@N{b}"]
    else:
        body["subline_by"] = [f"@N{a}"]
        body["page_by"] = [f"@N{b}"]
    return {"kind": "table", "page": {"nrow": 12}, "sections": [{"df": {"cols": cols}, "body": body, "headers": "default"}],
            "sweep": ["percol", a, b, mode]}


def sweep_case(n, nrow, strat):
    g = [f"@G0:v{i // 3}" for i in range(n)]
    b = [f"@B0:v{i // 5}" for i in range(n)]
    cols = [{"name": "@N0", "dtype": "str", "values": g},
            {"name": "@N1", "dtype": "str", "values": [f"r{i}" for i in range(n)]},
            {"name": "@N2", "dtype": "int", "values": [i if i % 4 else None for i in range(n)]},
            {"name": "@N3", "dtype": "str", "values": b}]
    body = {}
    if strat.startswith("page_by") or strat.endswith("+page_by"):
        body["page_by"] = ["@N0"]
    if strat == "page_by_new":
        body["new_page"] = True
    if strat == "page_by_first_row":
        body.update(new_page=True, pageby_row="first_row")
    if strat.startswith("subline"):
        body["subline_by"] = ["@N3"]
    return {"kind": "table", "page": {"nrow": nrow}, "sections": [{"df": {"cols": cols}, "body": body, "headers": "default"}],
            "footnote": {"text": ["@F0"]}, "sweep": [n, nrow, strat]}


def check(case) -> Result:
    res = Result()
    out = run_recipe(case)
    if out.build_error:
        res.harness_error = "recipe does not build: " + out.build_error
        return res
    if out.encode_error:
        res.excluded = "encode_raised:" + out.encode_error[0]
        return res
    if not out.doc.ok():
        res.excluded = "malformed_output"
        return res
    pages = classify(out.doc)
    got = [it.texts for pg in pages for it in pg if it.role == "data"]
    exp = []
    removed = 0
    for sec in case["sections"]:
        exp.extend(R.expected_rows(sec))
        removed += len(R.removed_columns(sec))
    res.checks = len(exp) + 1
    if got != exp:
        res.fail("roundtrip", diff_signature(got, exp), describe(got, exp))
    npages = len(pages)
    body = case["sections"][0].get("body", {})
    res.labels = [pages_label(npages), f"sections={len(case['sections'])}", f"removed_cols={min(removed, 2)}",
                  "strategy=" + strategy_name(body), f"convert={'off' if body.get('text_convert') is False else 'per_column' if isinstance(body.get('text_convert'), list) else 'on'}"]
    res.nontrivial = npages >= 2 or removed >= 1 or len(case["sections"]) >= 2
    return res


def strategy_name(body):
    if body.get("subline_by"):
        return "subline+page_by" if body.get("page_by") else "subline"
    if body.get("page_by"):
        s = "page_by"
        if len(body["page_by"]) > 1:
            s += "_nested"
        if body.get("new_page"):
            s += "_new/" + body.get("pageby_row", "column")
        return s
    return "plain"


def diff_signature(got, exp):
    if len(got) < len(exp):
        return "rows_missing"
    if len(got) > len(exp):
        return "rows_extra"
    if sorted(map(tuple, got)) == sorted(map(tuple, exp)):
        return "rows_reordered"
    if any(len(a) != len(b) for a, b in zip(got, exp)):
        return "column_set_differs"
    for a, b in zip(got, exp):
        if a != b and sorted(a) == sorted(b):
            return "columns_reordered"
    return "cell_text_altered"


def describe(got, exp):
    for i, (a, b) in enumerate(zip(got, exp)):
        if a != b:
            return f"first difference at data row {i}: got {a!r} expected {b!r} (rows got={len(got)} expected={len(exp)})"
    return f"row count got={len(got)} expected={len(exp)}; tail got={got[len(exp):][:2]!r} exp={exp[len(got):][:2]!r}"
