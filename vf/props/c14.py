"""C14 - encoding is a pure function of the document (call histories, fresh-interpreter baseline)."""
from __future__ import annotations

import copy
import itertools

from hypothesis import strategies as st

from .. import recipe as R
from ..engine import Result
from ..fresh import baseline

ID = "C14"
LEVEL = "exploration"
RULE = ("Histories of up to 4 prior operations drawn from {construct (optionally sharing page / title / subline / footnote "
        "/ source / page header / page footer / body / column-header OBJECTS with an earlier document), encode, encode expecting ValueError, "
        "encode twice, encode interrupted by an outside fault (OSError from the k-th font open, exception at the k-th library call), change a nested setting (rtf_page.nrow) of a live document in place, re-write a figure file at the same path} over a pool of 31 document archetypes (plain, coloured, multi-section with/without "
        "footnote, figure, grouped, grouped non-contiguous, paginated page_by, subline_by, 2- and 3-column tables "
        "that can share components), followed by encoding every live document. Exhaustive: all histories of "
        "length <=2 over archetype x sharing menu; generated: Hypothesis op-sequence strategy (indices are "
        "taken modulo the live pool, so every history is valid by construction). Oracle: every rtf_encode() "
        "result equals (a) the document's previous results and (b) byte-for-byte the result of a freshly spawned "
        "interpreter building an equal-valued, unshared document from the recipe; the caller's DataFrame equals "
        "a clone taken before construction. Non-trivial = history contains a failing encode, a shared "
        "component, or a multi-section/figure document before the target; distinct by sha1 of history.")
ASSUMPTIONS = ["'equal-valued' = same constructor arguments (the recipe), built without sharing in a new python process",
               "the worker process has executed earlier histories too, which only adds to 'whatever happened earlier in the process'"]

_PNG = (b"\x89PNG\r\n\x1a\n" + (13).to_bytes(4, "big") + b"IHDR" + (5).to_bytes(4, "big") + (7).to_bytes(4, "big")
        + b"\x08\x02\x00\x00\x00" + bytes(8)).hex()


def _t(ncol, n, tag="r"):
    return {"cols": [{"name": f"@N{j}", "dtype": "str" if j % 2 == 0 else "int",
                      "values": [f"{tag}{i}c{j}" if j % 2 == 0 else i * 3 + j for i in range(n)]} for j in range(ncol)]}


_LONG = " alpha be gamma de eps zeta eta th iota kap alpha be gamma"      # 0.978 of a 3.125 in column at 8.5 pt, 1.037 at 9 pt


def _wide(n):
    return {"cols": [{"name": "@N0", "dtype": "str", "values": [f"r{i}c0" + _LONG for i in range(n)]},
                     {"name": "@N1", "dtype": "str", "values": [f"r{i}c1" for i in range(n)]}]}


def _g(vals, n2=None):
    return {"cols": [{"name": "@N0", "dtype": "str", "values": vals},
                     {"name": "@N1", "dtype": "str", "values": [f"r{i}" for i in range(len(vals))]},
                     {"name": "@N2", "dtype": "float", "values": [i / 2 if i != 1 else None for i in range(len(vals))]}]}


_HDR = "@H0.0 alpha be gamma de eps zeta eta th iota kap alpha be gamma"                     # 1 line in a 3.1 in cell, 3 lines in a 1.5 in cell
_HEADING = "@G0:v0 alpha be gamma de eps zeta eta th iota kap alpha be gamma de eps zeta eta th iota kap alpha be gamma de eps zeta eta"  # 1 line at 6.25 in, 2 at 3 in

ARCH = [
    {"kind": "table", "sections": [{"df": _t(3, 4), "body": {}, "headers": "default"}]},                                      # 0 plain 3 col
    {"kind": "table", "sections": [{"df": _t(3, 3), "body": {"text_color": ["red", "blue", "gold"]}, "headers": "default"}],
     "title": {"text": ["@T0"], "text_color": "navy"}},                                                                       # 1 coloured
    {"kind": "multi", "header_layout": "nested", "sections": [{"df": _t(2, 2), "body": {"text_color": "green"}, "headers": "default"},
                                                              {"df": _t(3, 2, "s"), "body": {}, "headers": "none"}],
     "footnote": {"text": ["@F0"]}},                                                                                          # 2 multi + footnote
    {"kind": "multi", "header_layout": "nested", "sections": [{"df": _t(2, 3), "body": {}, "headers": "default"},
                                                              {"df": _t(2, 2, "s"), "body": {"text_background_color": "gray50"}, "headers": "default"}]},  # 3 multi
    {"kind": "figure", "figure": {"files": [{"suffix": ".png", "stem": "f0", "hex": _PNG}]},
     "title": {"text": ["@T0"], "text_color": "firebrick3"}},                                                                  # 4 figure
    {"kind": "table", "sections": [{"df": _g(["a", "a", "b", "b"]), "body": {"group_by": ["@N0"]}, "headers": "default"}]},    # 5 grouped
    {"kind": "table", "sections": [{"df": _g(["a", "b", "a"]), "body": {"group_by": ["@N0"], "text_color": "purple"}, "headers": "default"}]},  # 6 non-contiguous: raises
    {"kind": "table", "page": {"nrow": 4}, "sections": [{"df": _g(["@G0:v0"] * 3 + ["@G0:v1"] * 3), "body": {"page_by": ["@N0"]}, "headers": "default"}],
     "footnote": {"text": ["@F0"]}},                                                                                          # 7 paginated page_by
    {"kind": "table", "page": {"nrow": 6}, "sections": [{"df": _g(["@B0:v0"] * 2 + ["@B0:v1"] * 2), "body": {"subline_by": ["@N0"]}, "headers": "default"}]},  # 8 subline
    {"kind": "table", "sections": [{"df": _t(2, 3, "q"), "body": {}, "headers": "default"}]},                                 # 9 plain 2 col
    {"kind": "table", "page": {"nrow": 5, "border_last": "thick"}, "sections": [{"df": _t(3, 7), "body": {}, "headers": [{"text": ["@H0.0", "@H0.1", "@H0.2"]}]}],
     "footnote": {"text": ["@F0"], "as_table": True}, "source": {"text": ["@S0"]}},                                           # 10 paginated with footnote/source
    {"kind": "multi", "header_layout": "flat", "sections": [{"df": _t(3, 2), "body": {"text_color": "darkorange"}, "headers": [{"text": ["@H0.0", "@H0.1", "@H0.2"]}]},
                                                            {"df": _t(3, 2, "s"), "body": {"text_color": "blue"}, "headers": "default"}],
     "title": {"text": ["@T0"]}, "source": {"text": ["@S0"], "text_color": "red"}},                                           # 11 multi flat coloured
    {"kind": "table", "sections": [{"df": _t(4, 3), "body": {"col_rel_width": [1, 2, 1, 3]}, "headers": [{"text": ["@H0.0", "@H0.1", "@H0.2", "@H0.3"]}]}]},  # 12 explicit widths
    {"kind": "figure", "page": {"page_footnote": "all"}, "figure": {"files": [{"suffix": ".png", "stem": "f0", "hex": _PNG}, {"suffix": ".png", "stem": "f1", "hex": _PNG}]},
     "footnote": {"text": ["@F0"], "as_table": False, "text_color": "blue"}},                                                 # 13 figure 2 pages
    {"kind": "multi", "header_layout": "nested", "sections": [{"df": _t(2, 2), "body": {"col_rel_width": [1, 2]}, "headers": "default"},
                                                              {"df": _t(3, 2, "s"), "body": {"col_rel_width": [1, 1, 2]}, "headers": "default"}]},   # 14 multi, explicit widths, no footnote
    {"kind": "table", "sections": [{"df": _t(3, 5, "w"), "body": {"col_rel_width": [2, 1, 1]}, "headers": "default"}]},          # 15 3 col explicit widths
    # 16 / 17: the same long texts at 8.5 pt (one line each, one page) and at 9 pt (two lines each, two pages): measurement caches
    # (16 has no column header: a header label would be measured at 9 pt before the body in every process, fresh or not)
    {"kind": "table", "page": {"nrow": 8}, "sections": [{"df": _wide(6), "body": {"text_font_size": 8.5}, "headers": "none"}]},
    {"kind": "table", "page": {"nrow": 8}, "sections": [{"df": _wide(6), "body": {"text_font_size": 9}, "headers": [{"text": ["@H0.0", "@H0.1"]}]}]},
    # 19: alias colour names (one RGB value, several names) far apart in the master table with another colour between them
    {"kind": "table", "sections": [{"df": _t(3, 2), "body": {"text_color": ["gray", "grey", "green"], "text_background_color": ["gray100", "white", "gray50"]},
                                    "headers": "default"}], "title": {"text": ["@T0"], "text_color": "blue1"}, "footnote": {"text": ["@F0"], "text_color": "blue"}},
    # 20: multi-section whose second section uses subline_by (pagination forced inside the section), with a title
    {"kind": "multi", "header_layout": "nested",
     "sections": [{"df": _t(2, 2), "body": {}, "headers": "default"},
                  {"df": _g(["@B0:v0"] * 2 + ["@B0:v1"] * 2), "body": {"subline_by": ["@N0"], "col_rel_width": [1, 1, 1]}, "headers": "default"}],
     "title": {"text": ["@T0"]}},
    # 18: per-column border vector and one data row per page: in-place border updates would alias the caller's matrix
    {"kind": "table", "page": {"nrow": 2}, "sections": [{"df": _t(2, 3, "b"), "body": {"border_bottom": ["single", "dashed"], "border_top": ["", "dotted"]},
                                                        "headers": [{"text": ["@H0.0", "@H0.1"]}]}]},
    # 21 / 22: a table narrower than the text area (landscape default; custom col_width) with components whose indents
    # refer to the table (the RTFSubline default; page header / footer on request)
    {"kind": "table", "page": {"orientation": "landscape", "nrow": 20}, "sections": [{"df": _t(2, 3, "l"), "body": {}, "headers": "default"}],
     "title": {"text": ["@T0"]}, "subline": {"text": ["@U0"]}, "page_header": {"text": ["@P0"], "text_indent_reference": "table"}},
    {"kind": "table", "page": {"col_width": 4.0}, "sections": [{"df": _t(3, 3, "n"), "body": {}, "headers": "default"}],
     "subline": {"text": ["@U0", "@U1"]}, "page_footer": {"text": ["@Q0"], "text_indent_reference": "table"}},
    # 23: table-rendered footnote and source on EVERY page of a three-page table whose page-boundary border is '' while the
    #     document closes with 'thick': the per-page border of the component differs from page to page
    {"kind": "table", "page": {"nrow": 5, "page_footnote": "all", "page_source": "all", "border_last": "thick"},
     "sections": [{"df": _t(2, 7, "e"), "body": {"border_last": ""}, "headers": [{"text": ["@H0.0", "@H0.1"]}]}],
     "footnote": {"text": ["@F0"], "as_table": True}, "source": {"text": ["@S0"], "as_table": True}},
    # 24 / 25: the same wrapping column header label, and 26 / 27: the same wrapping page_by heading, in a 6.25 in and in a 3 in
    #          table with a tight nrow: line counts remembered by text alone move the page breaks of the second document
    {"kind": "table", "page": {"nrow": 7}, "sections": [{"df": _t(2, 9, "h"), "body": {}, "headers": [{"text": [_HDR, "@H0.1"]}]}]},
    {"kind": "table", "page": {"nrow": 7, "col_width": 3.0}, "sections": [{"df": _t(2, 9, "i"), "body": {}, "headers": [{"text": [_HDR, "@H0.1"]}]}]},
    {"kind": "table", "page": {"nrow": 8}, "sections": [{"df": _g([_HEADING] * 5 + ["@G0:v1"] * 5), "body": {"page_by": ["@N0"]}, "headers": [{"text": ["@H0.0", "@H0.1"]}]}]},
    {"kind": "table", "page": {"nrow": 8, "col_width": 3.0}, "sections": [{"df": _g([_HEADING] * 5 + ["@G0:v2"] * 5), "body": {"page_by": ["@N0"]},
                                                                         "headers": [{"text": ["@H0.0", "@H0.1"]}]}]},
    # 28: ONE RTFBody object (complete col_rel_width, so the constructor keeps it) used for all three sections of a multi-section
    #     document with title, footnote and source: first / last section must be told by position, not by object
    {"kind": "multi", "header_layout": "nested", "share_body": True,
     "sections": [{"df": _t(2, 2, "a"), "body": {"col_rel_width": [1, 2]}, "headers": "default"},
                  {"df": _t(2, 3, "b"), "body": {"col_rel_width": [1, 2]}, "headers": "default"},
                  {"df": _t(2, 2, "c"), "body": {"col_rel_width": [1, 2]}, "headers": "default"}],
     "title": {"text": ["@T0"]}, "footnote": {"text": ["@F0"]}, "source": {"text": ["@S0"]}},
    # 29: three subline_by headings with the SAME number of characters, of which only the first wraps (2 lines at 9 pt in the
    #     6.25 in text area), 5 rows per group, nrow 7: the heading reservation decides between 4 and 5 rows per page.  Anything
    #     that lets an unordered collection (polars unique(), a set) pick "the" heading changes the page breaks between calls
    {"kind": "table", "page": {"nrow": 7}, "sections": [{"df": _g(["@B0:v0 " + "W" * 56] * 5 + ["@B0:v1 " + "i" * 56] * 5 + ["@B0:v2 " + "l" * 56] * 5),
                                                        "body": {"subline_by": ["@N0"]}, "headers": [{"text": ["@H0.0", "@H0.1"]}]}]},
    # 30: the same with page_by headings in a 3 in table (ties in length among wrapping / non-wrapping headings)
    {"kind": "table", "page": {"nrow": 7, "col_width": 3.0}, "sections": [{"df": _g(["@G0:v0 " + "W" * 28] * 4 + ["@G0:v1 " + "i" * 28] * 4 + ["@G0:v2 " + "l" * 28] * 4),
                                                                         "body": {"page_by": ["@N0"]}, "headers": [{"text": ["@H0.0", "@H0.1"]}]}]},
]
_PNG2 = (b"\x89PNG\r\n\x1a\n" + (13).to_bytes(4, "big") + b"IHDR" + (12).to_bytes(4, "big") + (5).to_bytes(4, "big")
         + b"\x08\x02\x00\x00\x00" + bytes(8) + b"SECOND VERSION OF THE PLOT").hex()
RAISES = {6}
# archetype pairs built to interfere through measuring / colour / layout state: always in the quick tier
KEY_PAIRS = {(16, 17), (17, 16), (1, 18), (18, 1), (21, 22), (22, 21), (4, 13), (13, 4), (19, 8), (8, 19), (23, 10), (10, 23),
             (24, 25), (25, 24), (26, 27), (27, 26)}
PLAIN_BODY = {0, 9, 12, 10, 15, 20, 21, 22, 23}         # single tables whose body/header specs reference no columns
SHARE_SETS = [["page"], ["body"], ["footnote"], ["title"], ["header"], ["page", "footnote", "source", "title"], ["body", "header"],
              ["subline"], ["subline", "page_header", "page_footer"]]
COMPONENT_ARG = {"page": "rtf_page", "title": "rtf_title", "footnote": "rtf_footnote", "source": "rtf_source",
                 "subline": "rtf_subline", "page_header": "rtf_page_header", "page_footer": "rtf_page_footer"}


def _spec(op):
    """The document a construct operation builds: a pool archetype, or a generated recipe carried by the operation."""
    return copy.deepcopy(op["recipe"] if "recipe" in op else ARCH[op["arch"]])


def effective_recipe(history, upto):
    """Value of every constructed document as a recipe (shared components replaced by the donor's spec)."""
    recs = []
    for op in history[:upto]:
        if op["op"] != "construct":
            continue
        rec = _spec(op)
        sh = op.get("share")
        if sh and recs:
            donor = recs[sh["from"] % len(recs)]
            for what in applicable(sh["what"], rec, donor):
                if what in COMPONENT_ARG:
                    rec[what] = copy.deepcopy(donor.get(what))
                elif what == "body":
                    rec["sections"][0]["body"] = copy.deepcopy(donor["sections"][-1 if donor["kind"] == "multi" else 0]["body"])
                elif what == "header":
                    rec["sections"][0]["headers"] = copy.deepcopy(donor["sections"][0]["headers"])
        recs.append(rec)
    return recs


def applicable(what, rec, donor):
    out = []
    for w in what:
        if w in COMPONENT_ARG:
            if donor.get(w) is None:
                continue
            if rec["kind"] == "figure" and w in ("footnote", "source") and donor[w].get("as_table", w == "footnote"):
                continue
            out.append(w)
        elif w in ("body", "header"):
            if rec["kind"] != "table" or donor["kind"] not in ("table", "multi") or (donor["kind"] == "multi" and w == "header"):
                continue
            dbody = donor["sections"][-1 if donor["kind"] == "multi" else 0]["body"]
            if any(k in dbody or k in rec["sections"][0]["body"] for k in ("group_by", "page_by", "subline_by")):
                continue
            if w == "body" and dbody.get("col_rel_width") and len(dbody["col_rel_width"]) != len(rec["sections"][0]["df"]["cols"]):
                continue        # explicit widths must fit the sharing document's column count
            if w == "header" and not isinstance(donor["sections"][0]["headers"], list):
                continue
            out.append(w)
    return out


class Live:
    def __init__(self, built, clones, rec, shared):
        self.built, self.clones, self.rec, self.shared = built, clones, rec, shared
        self.results = []


def construct(rec, donor_live, what):
    """Build the document from the user's own objects; shared components are the donor's user OBJECTS."""
    import rtflite as rtf

    kw, dfs, files = R.build_kwargs(rec)
    if donor_live is not None:
        dkw = donor_live.built.parts
        for w in what:
            arg = COMPONENT_ARG.get(w) or {"body": "rtf_body", "header": "rtf_column_header"}[w]
            if arg in dkw:
                val = dkw[arg]
                if w == "body" and isinstance(val, list):
                    val = val[-1]            # a multi-section donor shares its last section's body object
                kw[arg] = val
    return R.Built(rtf.RTFDocument(**kw), dfs, rec, files, kw)


def encode(live):
    try:
        return ("ok", live.built.doc.rtf_encode())
    except Exception as e:  # noqa: BLE001
        return ("exc", type(e).__name__)


def faulted_encode(live, site, k):
    from ..faults import run_with_fault
    if site == "libcall":
        run_with_fault(live.built.doc.rtf_encode, k)
        return
    from PIL import ImageFont
    real = ImageFont.truetype
    n = [0]

    def flaky(*a, **kw):
        n[0] += 1
        if n[0] == k:
            raise OSError(24, "Too many open files")
        return real(*a, **kw)

    ImageFont.truetype = flaky
    try:
        live.built.doc.rtf_encode()
    except Exception:  # noqa: BLE001
        pass
    finally:
        ImageFont.truetype = real


def check(case) -> Result:
    res = Result()
    hist = case["history"]
    pool = []
    flags = set()
    try:
        for op in hist:
            if op["op"] == "construct":
                # the document's value as a recipe: its archetype, with shared components taking the donor's CURRENT value
                rec = _spec(op)
                if "recipe" in op:
                    flags.add("generated_documents")
                sh = op.get("share")
                donor, what = None, []
                if sh and pool:
                    donor = pool[sh["from"] % len(pool)]
                    what = applicable(sh["what"], rec, donor.rec)
                    for w in what:
                        if w in COMPONENT_ARG:
                            rec[w] = copy.deepcopy(donor.rec.get(w))
                        elif w == "body":
                            rec["sections"][0]["body"] = copy.deepcopy(donor.rec["sections"][-1 if donor.rec["kind"] == "multi" else 0]["body"])
                        elif w == "header":
                            rec["sections"][0]["headers"] = copy.deepcopy(donor.rec["sections"][0]["headers"])
                b = construct(rec, donor, what)
                pool.append(Live(b, [d.clone() for d in b.dfs], rec, what))
                if what:
                    flags.add("shared")
                if rec["kind"] in ("multi", "figure"):
                    flags.add("multi/figure")
            elif op["op"] == "rewrite_figure" and pool:
                # the user re-renders a plot to the SAME path (other bytes): the file is read at encode time, so the
                # document's value changes with it
                lv = pool[op["doc"] % len(pool)]
                if lv.rec["kind"] == "figure" and lv.built.files:
                    with open(lv.built.files[0], "wb") as fh:
                        fh.write(bytes.fromhex(_PNG2))
                    lv.rec = copy.deepcopy(lv.rec)
                    lv.rec["figure"]["files"][0]["hex"] = _PNG2
                    lv.results = []
                    flags.add("figure_file_rewritten")
            elif op["op"] == "set_nrow" and pool:
                # the user changes a nested setting of a live document in place; "equal-valued" now means the new value
                lv = pool[op["doc"] % len(pool)]
                lv.built.doc.rtf_page.nrow = op["nrow"]
                lv.rec = copy.deepcopy(lv.rec)
                lv.rec["page"] = dict(lv.rec.get("page") or {}, nrow=op["nrow"])
                lv.results = []          # earlier results belong to the earlier value
                for other in pool:       # documents sharing this page object change with it
                    if other is not lv and other.built.doc.rtf_page is lv.built.doc.rtf_page:
                        other.rec = copy.deepcopy(other.rec)
                        other.rec["page"] = dict(other.rec.get("page") or {}, nrow=op["nrow"])
                        other.results = []
                flags.add("mutated_in_place")
            elif op["op"] == "encode_faulted" and pool:
                # an encode that fails half-way for a reason outside the document (the k-th attempt to open a font file raises
                # OSError once / an exception surfaces at the k-th call into the library): whatever it returns or raises is not
                # compared; every LATER encode must still equal the fresh interpreter
                lv = pool[op["doc"] % len(pool)]
                faulted_encode(lv, op["site"], op["k"])
                flags.add("failed_encode")
                flags.add("fault_during_encode")
            elif pool:
                lv = pool[op["doc"] % len(pool)]
                for _ in range(2 if op["op"] == "encode_twice" else 1):
                    verify(res, lv, encode(lv), flags)
        for lv in pool:  # the target step: every live document is encoded and compared
            verify(res, lv, encode(lv), flags)
    except Exception as e:  # construction of an archetype must not fail
        import traceback
        res.harness_error = f"history {hist}: {traceback.format_exc()[-800:]}"
        return res
    res.labels = [f"ops={len(hist)}"] + sorted("has=" + f for f in flags) + [f"docs={len(pool)}"]
    res.nontrivial = bool(flags)
    return res


def verify(res, lv, got, flags):
    res.checks += 3
    arch_kind = lv.rec["kind"]
    tag = f"{arch_kind}" + ("+shared:" + ",".join(lv.shared) if lv.shared else "")
    if got[0] == "exc":
        flags.add("failed_encode")
    # "equal-valued, unshared": the fresh interpreter builds one body object per section
    base = baseline({k: v for k, v in lv.rec.items() if k != "share_body"})
    if "spawn_error" in base or "build_exc" in base:
        res.harness_error = f"baseline failed: {base}"
        return
    want = ("ok", base["ok"]) if "ok" in base else ("exc", base["exc"])
    if got != want:
        if got[0] != want[0] or got[0] == "exc":
            res.fail("baseline", f"{tag}/outcome", f"got {got[0]}:{got[1][:60]!r} fresh interpreter {want[0]}:{want[1][:60]!r}")
        else:
            res.fail("baseline", f"{tag}/differs", first_diff(got[1], want[1]))
    if lv.results and lv.results[-1] != got:
        res.fail("repeat", f"{tag}/changes_between_calls", first_diff(str(got[1]), str(lv.results[-1][1])))
    lv.results.append(got)
    for df, clone in zip(lv.built.dfs, lv.clones):
        if df.schema != clone.schema or not df.equals(clone, null_equal=True):
            res.fail("dataframe", f"{tag}/modified", "caller's DataFrame differs from the clone taken before construction")


def first_diff(a, b):
    for i, (x, y) in enumerate(zip(a, b)):
        if x != y:
            return f"offset {i}: got ...{a[max(0, i - 40):i + 30]!r} want ...{b[max(0, i - 40):i + 30]!r}"
    return f"length {len(a)} vs {len(b)}"


# ------------------------------------------------------------------ generation

def _construct(arch, share=None):
    op = {"op": "construct", "arch": arch}
    if share:
        op["share"] = share
    return op


GEN_CFG = None


@st.composite
def _generated_pair(draw):
    """Two (three) documents from the universal document strategy instead of the archetype pool: A is constructed and
    encoded (it may be refused), B is constructed - optionally around A's page / title / subline / footnote / source /
    page header / page footer OBJECTS - and every document is encoded at the end."""
    from dataclasses import replace as _replace

    from .. import gen
    global GEN_CFG
    if GEN_CFG is None:
        GEN_CFG = gen.Cfg(max_cols=4, max_rows=8, nrow_range=(2, 10), allow_group_by=True, noncontig=0.2, long_text=0.1, multi_grouping=True)
    k = draw(st.sampled_from([2, 2, 3]))
    hist = []
    for i in range(k):
        op = {"op": "construct", "arch": -1, "recipe": draw(gen.universal(GEN_CFG))}
        if i and draw(st.booleans()):
            op["share"] = {"from": draw(st.integers(0, i - 1)),
                           "what": draw(st.lists(st.sampled_from(sorted(COMPONENT_ARG)), min_size=1, max_size=4, unique=True))}
        hist.append(op)
        if draw(st.integers(0, 9)) < 7:
            hist.append({"op": draw(st.sampled_from(["encode", "encode_twice"])), "doc": i})
    return {"history": hist}


@st.composite
def _history(draw):
    if draw(st.integers(0, 9)) < 2:
        return draw(_generated_pair())
    n = draw(st.integers(1, 4))
    hist = [_construct(draw(st.integers(0, len(ARCH) - 1)))]
    for _ in range(n):
        kind = draw(st.sampled_from(["construct", "construct", "encode", "encode", "encode_twice", "set_nrow", "rewrite_figure", "encode_faulted"]))
        if kind == "encode_faulted":
            site = draw(st.sampled_from(["truetype", "libcall", "libcall"]))
            hist.append({"op": kind, "doc": draw(st.integers(0, 5)), "site": site,
                         "k": draw(st.integers(1, 12)) if site == "truetype" else draw(st.integers(1, 2500))})
            continue
        if kind == "rewrite_figure":
            hist.append({"op": "rewrite_figure", "doc": draw(st.integers(0, 5))})
            continue
        if kind == "set_nrow":
            hist.append({"op": "set_nrow", "doc": draw(st.integers(0, 5)), "nrow": draw(st.sampled_from([3, 5, 7, 40]))})
            continue
        if kind == "construct":
            share = None
            if draw(st.integers(0, 9)) < 6:
                share = {"from": draw(st.integers(0, 5)), "what": draw(st.sampled_from(SHARE_SETS))}
                arch = draw(st.sampled_from(sorted(PLAIN_BODY) * 2 + list(range(len(ARCH)))))
            else:
                arch = draw(st.integers(0, len(ARCH) - 1))
            hist.append(_construct(arch, share))
        else:
            hist.append({"op": kind, "doc": draw(st.integers(0, 5))})
    return {"history": hist}


def strategy(tier):
    return _history()


def budget(tier):
    return 40 if tier == "quick" else 1200


def enumerate_cases(tier):
    """All histories of length <= 2 (after the first construct) over archetype x sharing menu."""
    archs = range(len(ARCH))
    for a in archs:
        yield {"history": [_construct(a)]}
        yield {"history": [_construct(a), {"op": "encode_twice", "doc": 0}]}
    for a in (29, 30):   # many renderings of documents whose layout hinges on a tie between headings
        for k in (3, 5):
            yield {"history": [_construct(a)] + [{"op": "encode_twice", "doc": 0}] * k}
    for a in archs:      # an encode that fails for an outside reason, then every document again (and a second document)
        for site, ks in (("truetype", (1, 2, 5)), ("libcall", (3, 40, 150, 400, 900))):
            for k in ks:
                if tier == "quick" and (a + k) % 2:
                    continue
                yield {"history": [_construct(a), {"op": "encode_faulted", "doc": 0, "site": site, "k": k}, _construct((a * 7 + k) % len(ARCH))]}
    for a in archs:      # a figure file re-written at the same path between two encodes
        if ARCH[a]["kind"] == "figure":
            yield {"history": [_construct(a), {"op": "encode", "doc": 0}, {"op": "rewrite_figure", "doc": 0}]}
            yield {"history": [_construct(a), {"op": "encode", "doc": 0}, {"op": "rewrite_figure", "doc": 0}, {"op": "encode", "doc": 0}, _construct(0)]}
    for a in archs:      # encode, change a nested setting in place, encode again
        if ARCH[a]["kind"] != "figure":
            yield {"history": [_construct(a), {"op": "encode", "doc": 0}, {"op": "set_nrow", "doc": 0, "nrow": 3}]}
            yield {"history": [_construct(a), {"op": "set_nrow", "doc": 0, "nrow": 5}, {"op": "encode", "doc": 0}, {"op": "set_nrow", "doc": 0, "nrow": 40}]}
    for a, b in itertools.product(archs, archs):
        if tier == "quick" and (a * 5 + b) % 3 and (a, b) not in KEY_PAIRS:
            continue
        yield {"history": [_construct(a), {"op": "encode", "doc": 0}, _construct(b)]}
    for a, b in itertools.product(sorted(PLAIN_BODY) + [1, 7, 2, 4, 14, 3], sorted(PLAIN_BODY) + [1, 7, 2, 13]):
        for what in SHARE_SETS:
            for enc_first in (False, True):
                if tier == "quick" and (a + b + len(what) + enc_first) % 2:
                    continue
                h = [_construct(a)] + ([{"op": "encode", "doc": 0}] if enc_first else []) + [_construct(b, {"from": 0, "what": what})]
                yield {"history": h}


def reductions(case):
    """Shorter histories: drop one operation (never the first construct), drop sharing."""
    import copy as _copy
    h = case["history"]
    for i in range(len(h) - 1, 0, -1):
        yield {"history": h[:i] + h[i + 1:]}
    for i, op in enumerate(h):
        if op.get("share"):
            c = _copy.deepcopy(h)
            del c[i]["share"]
            yield {"history": c}
            if len(op["share"]["what"]) > 1:
                for w in op["share"]["what"]:
                    c = _copy.deepcopy(h)
                    c[i]["share"]["what"] = [w]
                    yield {"history": c}
        if op["op"] == "encode_twice":
            c = _copy.deepcopy(h)
            c[i]["op"] = "encode"
            yield {"history": c}
