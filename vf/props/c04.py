"""C04 - page breaks occur only when required, and always when required."""
from __future__ import annotations

import copy
import itertools

from hypothesis import strategies as st

from .. import pgen
from .. import recipe as R
from ..common import pages_label, run_recipe
from ..engine import Result
from .. import findings as findings_mod
from ..pagemodel import analyze, group_values, heading_lines, headings_brought, reservation
from .c03 import overflows

ID = "C04"
LEVEL = "exploration"
RULE = ("Single-section tables in the default body font whose rows have an unambiguous height (calibrated filler, "
        "every cell well inside a k-line band, set in ordinary words, in wide glyphs (M W m @) or in narrow ones (i l t f); unequal column widths and missing (null) cells in 40% of the tables), nrow 2-30, all header / footnote / source reservations, group-key "
        "sequences with 1-3 levels over a small alphabet (runs of every length, keys may return non-adjacently, '-----' divider runs in 30% of the grouped tables), "
        "plain / page_by (new_page on/off, pageby_row column/first_row) / subline_by. Exhaustive part: all height "
        "vectors in {1,2,3}^n x all group-change patterns of length n (quick: n<=4 complete + every 4th of n=5; thorough: n<=7 complete, 167,961 cases), over a "
        "rotating set of (nrow, reservation, strategy). Oracle from the page membership of coordinate-tagged "
        "rows: (i) pages non-empty, contiguous, in order; (ii) a break is justified only if forced by a grouping "
        "rule or observed fill + need(next row incl. the headings it brings) > nrow - R (R = all configured "
        "repeating rows); (iii) every subline_by change / page_by change under new_page starts a page and no page "
        "mixes two such groups; (iv) prefix stability: rows 0..k-1 of df[:k] paginate as in df[:n]. The "
        "if-direction (no overflow) shares C03's predicate. Non-trivial = >=1 capacity-justified break (and, for "
        "grouped runs, >=1 forced break).")
ASSUMPTIONS = ["default body font, so the library's line estimate and the independent measurement agree by construction",
               "R counts every configured repeating row (header rows incl. the auto header, footnote, source, subline heading) "
               "regardless of placement: never smaller than what the code reserves"]

ALPHA = ["v0", "v1", "v2"]


@st.composite
def _keys(draw, n, levels, tag, dividers=False):
    """Arbitrary key sequence: runs of random length, values from a small alphabet (keys may return)."""
    cols = [[None] * n for _ in range(levels)]
    for lvl in range(levels):
        pos = 0
        while pos < n:
            r = draw(st.integers(1, 6))
            v = f"{tag}{lvl}:{draw(st.sampled_from(ALPHA))}"
            if dividers and draw(st.integers(0, 9)) < 2:
                v = "-----"
            for i in range(pos, min(n, pos + r)):
                cols[lvl][i] = v
            pos += r
    if dividers:
        # a divider group has no headings at all: below a divider the inner levels are dividers too
        for i in range(n):
            for lvl in range(1, levels):
                if cols[lvl - 1][i] == "-----":
                    cols[lvl][i] = "-----"
    return cols


@st.composite
def _case(draw):
    strat = draw(st.sampled_from(["plain", "page_by", "page_by_new", "subline", "subline+page_by"]))
    n = draw(st.integers(1, 36))
    heights = [draw(st.sampled_from([1, 1, 1, 2, 3])) if draw(st.integers(0, 9)) < 4 else 1 for _ in range(n)]
    levels = draw(st.integers(1, 3)) if "page_by" in strat else 0
    groups = draw(_keys(n, levels, "@G", dividers=draw(st.integers(0, 9)) < 3)) if levels else None
    if levels and strat == "page_by" and draw(st.integers(0, 9)) < 3:
        groups = draw(pgen.lengthen_groups(groups))      # headings that wrap to 2-3 lines across the table
    subline = None
    if strat.startswith("subline"):
        k = draw(st.sampled_from([1, 1, 2, 3]))
        cols_ = draw(_keys(n, k, "@B"))
        subline = cols_[0] if k == 1 else cols_
    header = draw(st.sampled_from(["explicit", "default", "multi", "none"]))
    fn = draw(st.sampled_from([None, "table", "para"]))
    src = draw(st.sampled_from([None, "table", "para"]))
    pl = tuple(draw(st.sampled_from(["first", "last", "all"])) for _ in range(3)) if draw(st.booleans()) else None
    new_page = strat == "page_by_new"
    ndata = draw(st.integers(1, 3))
    rel = [draw(st.sampled_from([1, 1, 2, 3])) for _ in range(ndata)] if (ndata >= 2 and draw(st.integers(0, 9)) < 4) else None
    nulls = None
    if ndata >= 2 and draw(st.integers(0, 9)) < 4:
        nulls = {f"{i},{draw(st.integers(0, ndata - 1))}" for i in range(n) if draw(st.integers(0, 9)) < 3}
    rec = pgen.make_table(heights, groups, ndata=ndata, rel_widths=rel, null_cells=nulls, subline=subline, page_by_levels=levels,
                          new_page=new_page, pageby_row=draw(st.sampled_from([None, "column", "first_row"])) if new_page else None,
                          pageby_header=draw(st.sampled_from([None, True, False])), header=header, footnote=fn, source=src,
                          nrow=draw(st.integers(2, 30)), placements=pl, title=draw(st.booleans()),
                          tall_cols=[draw(st.integers(0, 2)) for _ in range(n)], group_first=draw(st.booleans()),
                          glyphs=[draw(st.sampled_from(["normal", "wide", "narrow"])) for _ in range(draw(st.integers(1, 3)))] if draw(st.integers(0, 9)) < 4 else None)
    rec["strategy"] = strat
    rec["prefix"] = draw(st.integers(1, n))
    return rec


def strategy(tier):
    return _case()


def budget(tier):
    return 60 if tier == "quick" else 1500


CONFIGS = [  # (strategy, header, footnote, source, nrow)
    ("plain", "explicit", None, None, 4), ("plain", "none", "table", None, 5), ("plain", "multi", "para", "table", 7),
    ("page_by", "explicit", None, None, 5), ("page_by", "none", None, "para", 6), ("page_by_new", "explicit", "table", None, 5),
    ("page_by_new_first_row", "explicit", None, None, 5), ("subline", "explicit", None, None, 5), ("subline", "default", "table", "table", 8),
    ("plain", "default", None, None, 3), ("page_by", "multi", "table", "table", 9), ("page_by", "explicit", None, None, 3),
    # two data columns of unequal width (1:3) next to a page_by column that stays in the table; a null cell in the other column
    ("page_by_new_w", "explicit", None, None, 6), ("plain_w", "none", None, None, 5),
    # multi-line cells set in wide (M W m @) and in narrow (i l t f) glyphs: character-count estimates are far off for these
    ("plain_wide", "explicit", None, None, 5), ("plain_narrow", "none", None, None, 4),
]


def enumerate_cases(tier):
    nmax = 5 if tier == "quick" else 7
    k = 0
    for n in range(1, nmax + 1):
        for hv in itertools.product((1, 2, 3), repeat=n):
            for pattern in itertools.product((0, 1), repeat=n - 1):
                k += 1
                if tier == "quick" and n == 5 and k % 4:
                    continue            # quick: n<=4 complete, n=5 every 4th
                # thorough: n<=7 complete (168k cases); the prefix-stability re-encode is skipped for n=7 (it doubles
                # the cost and is covered by n<=6 and the generated cases)
                cfg = CONFIGS[k % len(CONFIGS)]
                yield exhaustive_case(hv, pattern, cfg)


def exhaustive_case(hv, pattern, cfg):
    strat, header, fn, src, nrow = cfg
    n = len(hv)
    g, vals = 0, []
    for i in range(n):
        if i > 0 and pattern[i - 1]:
            g += 1
        vals.append(g)
    groups = subline = None
    levels = 0
    new_page, pbr = False, None
    wide = strat.endswith("_w")
    if wide:
        strat = strat[:-2]
    glyphs = None
    for g in ("wide", "narrow"):
        if strat.endswith("_" + g):
            strat, glyphs = strat[: -len(g) - 1], [g]
    if strat.startswith("page_by"):
        groups, levels = [[f"@G0:v{v}" for v in vals]], 1
        new_page = "new" in strat
        pbr = "first_row" if strat.endswith("first_row") else None
    if strat == "subline":
        subline = [f"@B0:v{v}" for v in vals]
    extra = {}
    if wide:
        # the null sits in the column that is NOT the row's calibrated one (make_table never blanks that): on odd rows the
        # 1-width column is null and the wrapping text stands to its right in the 3-width column
        extra = dict(rel_widths=[1, 3], null_cells={f"{i},{1 - i % 2}" for i in range(n)})
    rec = pgen.make_table(list(hv), groups, ndata=2 if wide else 1, subline=subline, page_by_levels=levels, new_page=new_page, pageby_row=pbr,
                          header=header, footnote=fn, source=src, nrow=nrow, glyphs=glyphs, **extra)
    rec["strategy"] = strat
    rec["prefix"] = max(1, n - 1) if n < 7 else 0
    return rec


def membership(pages):
    out = {}
    for p in pages:
        for d in p.data:
            out[d.index] = p.number
    return out


def check(case) -> Result:
    res = Result()
    out = run_recipe(case)
    if out.build_error:
        res.harness_error = "recipe does not build: " + out.build_error
        return res
    if out.encode_error:
        res.excluded = "encode_raised:" + out.encode_error[0]
        return res
    if not out.doc.ok():
        res.excluded = "malformed_output"
        return res
    sec = case["sections"][0]
    body = sec.get("body", {})
    n = R.nrows(sec)
    pages = analyze(out.doc)
    nrow = case["page"]["nrow"]
    Rsv = reservation(case)
    pb_keys, sb_keys = group_values(case)
    spanning = R.spanning(body)
    # "new_page ... automatically set to True when using subline_by" (RTFBody documentation)
    new_page = bool(body.get("new_page")) or bool(body.get("subline_by"))
    strat = case.get("strategy", "?")
    # (i) contiguity
    seq = [d.index for p in pages for d in p.data]
    res.checks += 1
    if seq != list(range(n)):
        res.fail("contiguity", "rows_not_in_order_once", f"row indices by page order: {seq[:30]} expected 0..{n - 1}")
        return finish(res, case, pages, 0, 0)
    if n > 0 and any(not p.data for p in pages):
        res.fail("contiguity", "empty_page", f"pages with data rows: {[len(p.data) for p in pages]}")
    # if-direction: a break that was required is missing when a page with >= 2 data rows exceeds nrow (C03's predicate)
    open_auto = any(f.sig == "required_break_missing/auto_header_unreserved" for f in findings_mod.load(ID))
    known, worst, _ = overflows(case, pages, open_auto)
    res.checks += len(pages)
    if known:
        res.fail("required_break_missing", "auto_header_unreserved", known[0][1])
    if worst:
        res.fail("required_break_missing", worst[1], worst[2])
    # breaks
    cap_breaks = forced_breaks = 0
    for a, b in zip(pages, pages[1:]):
        if not a.data or not b.data:
            continue
        i, j = a.data[-1].index, b.data[0].index
        res.checks += 1
        forced = (bool(sb_keys[i]) and sb_keys[i] != sb_keys[j]) or (new_page and bool(pb_keys[i]) and pb_keys[i] != pb_keys[j])
        need = b.data[0].weight + (headings_brought(pb_keys[i], pb_keys[j], heading_lines) if (spanning and pb_keys[i]) else 0)
        fits = a.body_fill() + need <= nrow - Rsv
        if forced:
            forced_breaks += 1
            if not fits:
                cap_breaks += 1
            continue
        if fits:
            res.fail("premature_break", f"{strat}", f"break after row {i}: page {a.number + 1} fill {a.body_fill()} + next row needs {need} "
                     f"<= nrow {nrow} - reserved {Rsv}")
        else:
            cap_breaks += 1
    # (iii) forced breaks / no mixing
    for p in pages:
        idx = [d.index for d in p.data]
        res.checks += 1
        if sb_keys and sb_keys[0]:
            if len({sb_keys[i] for i in idx}) > 1 or any(sb_keys[a] != sb_keys[b] for a, b in zip(idx, idx[1:])):
                res.fail("forced_break", "subline_groups_mixed_on_page", f"page {p.number + 1} rows {idx} keys {[sb_keys[i] for i in idx]}")
        if new_page and pb_keys and pb_keys[0]:
            if any(pb_keys[a] != pb_keys[b] for a, b in zip(idx, idx[1:])):
                res.fail("forced_break", "page_by_groups_mixed_on_page", f"page {p.number + 1} rows {idx} keys {[pb_keys[i] for i in idx]}")
    # (iv) prefix stability
    k = case.get("prefix")
    if k and 0 < k < n:
        pre = copy.deepcopy({x: y for x, y in case.items() if x != "prefix"})
        for c in pre["sections"][0]["df"]["cols"]:
            c["values"] = c["values"][:k]
        out2 = run_recipe(pre)
        res.checks += 1
        if out2.doc is not None and out2.doc.ok():
            m_full = membership(pages)
            m_pre = membership(analyze(out2.doc))
            diff = [i for i in range(k) if m_full.get(i) != m_pre.get(i)]
            if diff:
                res.fail("prefix_stability", strat, f"df[:{k}] puts row {diff[0]} on page {m_pre.get(diff[0])}, df[:{n}] on page {m_full.get(diff[0])}")
    return finish(res, case, pages, cap_breaks, forced_breaks)


def finish(res, case, pages, cap_breaks, forced_breaks):
    strat = case.get("strategy", "?")
    grouped = strat != "plain"
    res.labels = [pages_label(len(pages)), "strategy=" + strat, f"cap_breaks={min(cap_breaks, 3)}", f"forced_breaks={min(forced_breaks, 3)}"]
    res.nontrivial = cap_breaks >= 1 and (forced_breaks >= 1 or not grouped or strat == "page_by")
    return res
