"""C06 - titles, headers, footnotes and sources appear on exactly the configured pages."""
from __future__ import annotations

import itertools
import re
from dataclasses import replace

from hypothesis import strategies as st

from .. import gen
from .. import recipe as R
from ..common import pages_label, run_recipe
from ..engine import Result
from ..model import classify

ID = "C06"
LEVEL = "exploration"
RULE = ("Exhaustive product page_title x page_footnote x page_source (27) x footnote {table, paragraph, absent} x "
        "source {...} x pageby_header x {plain, page_by, subline_by} x header mode {default, explicit, multi-row, "
        "none} on frames of 3/8/14/24 rows at nrow=8 (1, 2, 3 and 5+ pages; quick tier: a seeded 1/12 slice), "
        "plus Hypothesis-generated single tables and figure documents with random paper sizes (standard formats and arbitrary 4.5-60 in sides), margins, "
        "orientation; a quarter of them rendered a second time after their rtf_page was replaced by another layout. Oracle per parsed page: role sequence matches title? subline? sublineHeading? header* "
        "(heading|data)* footnote? source? with presence dictated by the placement option and first/last status, "
        "header rows on page 1 and on later pages iff pageby_header; every page after the first restates "
        "\\paperw \\paperh \\margl..\\footery equal to the document start, start values within 1 twip of inches x "
        "1440, \\landscape iff landscape; exactly one \\header / \\footer iff configured. Non-trivial = >=2 pages "
        "and at least one placement/pageby_header option differing from its default.")
ASSUMPTIONS = ["blocks are classified by sentinel tags", "multi-section documents are not in this property's quantifier"]

CFG = gen.Cfg(max_cols=5, max_rows=30, nrow_range=(2, 16), allow_group_by=False, attrs=False, dividers=True,
              page_borders=False, paper_range=(4.5, 60.0), as_colheader_false=True, last_row_option=True)
ORDER_RE = re.compile(r"^(T)?(U)?(B)?(H*)((?:G|D)*)(F)?(S)?$")
CODE = {"title": "T", "subline": "U", "sublinehead": "B", "header": "H", "heading": "G", "data": "D",
        "fnrow": "F", "fnpara": "F", "srcrow": "S", "srcpara": "S", "pict": "D"}
DEFAULT_GEOM = {"portrait": (8.5, 11.0, [1.25, 1, 1.75, 1.25, 1.75, 1.00625]),
                "landscape": (11.0, 8.5, [1.0, 1.0, 2, 1.25, 1.25, 1.25])}


GEOM_KEYS = ("width", "height", "margin", "orientation", "col_width")


@st.composite
def _with_history(draw, base):
    """A quarter of the documents are rendered once under another paper size / margins / orientation first, then
    given the recipe's rtf_page and rendered again (common.run_recipe, key 'relayout')."""
    rec = draw(base)
    if draw(st.integers(0, 3)) == 0:
        other = draw(gen.page_spec(CFG))
        first = {k: v for k, v in (rec.get("page") or {}).items() if k not in GEOM_KEYS}
        first.update({k: other[k] for k in GEOM_KEYS if k in other})
        rec["relayout"] = first
    return rec


def strategy(tier):
    return _with_history(st.one_of(gen.table_recipe(CFG), gen.table_recipe(CFG), gen.figure_recipe(replace(CFG, attrs=False))))


def budget(tier):
    return 120 if tier == "quick" else 3000


def enumerate_cases(tier):
    pl = ("first", "last", "all")
    tb = ("table", "para", "absent")
    k = 0
    for pt, pf, ps, fn, src, pbh, strat, hdr, n in itertools.product(
            pl, pl, pl, tb, tb, (True, False), ("plain", "page_by", "subline"), ("default", "explicit", "multi", "none"),
            (3, 8, 14, 24)):
        k += 1
        if tier == "quick" and (k * 7) % 12 != 0:
            continue
        yield product_case(pt, pf, ps, fn, src, pbh, strat, hdr, n)


def product_case(pt, pf, ps, fn, src, pbh, strat, hdr, n):
    cols = [{"name": "@N0", "dtype": "str", "values": [f"@{'G' if strat == 'page_by' else 'B'}0:v{i // 5}" for i in range(n)]},
            {"name": "@N1", "dtype": "str", "values": [f"r{i}" for i in range(n)]},
            {"name": "@N2", "dtype": "int", "values": list(range(n))}]
    body = {"pageby_header": pbh}
    if strat == "page_by":
        body["page_by"] = ["@N0"]
    if strat == "subline":
        body["subline_by"] = ["@N0"]
    sec = {"df": {"cols": cols}, "body": body}
    nd = len(R.displayed_columns(sec))
    sec["headers"] = {"default": "default", "none": "none",
                      "explicit": [{"text": [f"@H0.{c}" for c in range(nd)]}],
                      "multi": [{"text": ["@H0.0"], "col_rel_width": [1]}, {"text": [f"@H1.{c}" for c in range(nd)]}]}[hdr]
    rec = {"kind": "table", "page": {"nrow": 8, "page_title": pt, "page_footnote": pf, "page_source": ps},
           "sections": [sec], "title": {"text": ["@T0", "@T1"]}, "subline": {"text": ["@U0"]}}
    if fn != "absent":
        rec["footnote"] = {"text": ["@F0"], "as_table": fn == "table"}
    if src != "absent":
        rec["source"] = {"text": ["@S0"], "as_table": src == "table"}
    return rec


def n_header_rows(sec):
    h = sec.get("headers", "default")
    if h == "none":
        return 0
    if h == "default":
        return 1 if sec.get("body", {}).get("as_colheader", True) else 0
    return sum(1 for x in h if x is not None and x.get("text") is not None)


def twips(x):
    return x * 1440.0


def check(case) -> Result:
    res = Result()
    out = run_recipe(case)
    if out.build_error:
        res.harness_error = "recipe does not build: " + out.build_error
        return res
    if out.encode_error:
        res.excluded = "encode_raised:" + out.encode_error[0]
        return res
    d = out.doc
    if not d.ok():
        res.excluded = "malformed_output"
        return res
    pages = classify(d)
    np_ = len(pages)
    page = case.get("page") or {}
    pt, pf, ps = page.get("page_title", "all"), page.get("page_footnote", "last"), page.get("page_source", "last")
    figure = case["kind"] == "figure"
    sec = None if figure else case["sections"][0]
    body = {} if figure else sec.get("body", {})
    pbh = body.get("pageby_header", True)
    nh = 0 if figure else n_header_rows(sec)
    kind = "figure" if figure else "table"

    def should(opt, i):
        return opt == "all" or (opt == "first" and i == 0) or (opt == "last" and i == np_ - 1)

    for i, items in enumerate(pages):
        seq = "".join(CODE.get(it.role, "?") for it in items)
        m = ORDER_RE.match(seq)
        res.checks += 6
        where = "first" if i == 0 else ("last" if i == np_ - 1 else "middle")
        if not m:
            res.fail("order", f"{kind}/sequence", f"page {i + 1}/{np_}: roles {[it.role for it in items]}")
            continue
        has_t, has_u, has_b, hs, _, has_f, has_s = m.groups()
        for name, present, cfg_present, opt in (("title", has_t, case.get("title"), pt), ("subline", has_u, case.get("subline"), pt),
                                                ("footnote", has_f, case.get("footnote"), pf), ("source", has_s, case.get("source"), ps)):
            want = bool(cfg_present) and should(opt, i)
            if bool(present) != want:
                res.fail("placement", f"{kind}/{name}/{opt}/{where}/{'missing' if want else 'unexpected'}",
                         f"page {i + 1}/{np_}: {name} {'missing' if want else 'present'} under {opt}; roles {[it.role for it in items]}")
        if not figure:
            want_h = nh if (i == 0 or pbh) else 0
            if len(hs) != want_h:
                res.fail("column_header", f"{where}/pageby_header={pbh}/got{len(hs)}want{want_h}",
                         f"page {i + 1}/{np_}: {len(hs)} header rows, expected {want_h}")
    # geometry
    g0 = d.geom[0]
    orient = page.get("orientation", "portrait")
    dw, dh, dm = DEFAULT_GEOM[orient]
    width, height, margin = page.get("width", dw), page.get("height", dh), page.get("margin", dm)
    keys = ("paperw", "paperh", "margl", "margr", "margt", "margb", "headery", "footery")
    want = dict(zip(keys, [width, height] + list(margin)))
    res.checks += 9 * np_
    for k in keys:
        if k not in g0:
            res.fail("geometry", f"{kind}/start_missing_{k}", f"document start has no \\{k}")
        elif abs(g0[k] - twips(want[k])) > 1:
            res.fail("geometry", f"{kind}/start_value_{k}", f"\\{k}{g0[k]} vs {want[k]} in = {twips(want[k])}")
    if bool(g0.get("landscape")) != (orient == "landscape"):
        res.fail("geometry", f"{kind}/landscape_flag", f"orientation {orient}, \\landscape={g0.get('landscape')}")
    for i in range(1, np_):
        gi = d.geom[i]
        bad = [k for k in keys if gi.get(k) != g0.get(k)]
        if bad:
            missing = [k for k in bad if k not in gi]
            sig = "not_restated" if len(missing) == len(keys) else ("partly_restated" if missing else "restated_differs")
            res.fail("geometry", f"{kind}/{sig}", f"page {i + 1}: {[(k, gi.get(k), g0.get(k)) for k in bad][:4]}")
            break
    for name, lst in (("page_header", d.headers), ("page_footer", d.footers)):
        cfgc = case.get(name)
        want_n = 1 if (cfgc is not None and (cfgc.get("text", ["x"]))) else 0
        if len(lst) != want_n:
            res.fail("header_footer", f"{kind}/{name}/got{len(lst)}want{want_n}", "")
    nondefault = (pt != "all") or (pf != "last") or (ps != "last") or (pbh is not True)
    res.labels = [pages_label(np_), "kind=" + kind, f"pt={pt}", f"pf={pf}", f"ps={ps}",
                  "geom=custom" if ("width" in page or "margin" in page) else "geom=default", "orient=" + orient,
                  "rerendered_after_layout_change" if case.get("relayout") is not None else "fresh"]
    res.nontrivial = np_ >= 2 and nondefault
    return res
