"""C09 - cell formatting follows the data cell."""
from __future__ import annotations

import copy
import re
from dataclasses import replace

from hypothesis import strategies as st

from .. import gen, refdata
from .. import recipe as R
from ..common import pages_label, run_recipe
from ..engine import Result
from ..expect import attr_at
from ..model import classify

ID = "C09"
LEVEL = "exploration"
RULE = ("Tables of 1-40 rows x 1-6 columns whose string cells carry their original coordinates r<i>c<j>; every body "
        "attribute (font, size, format, text/background colour, justification, 3 indents, line spacing, space "
        "before/after, hyphenation, 4 border styles, border width, 4 border colours, vertical alignment, row "
        "height, row justification) drawn with probability 0.3 in one of the shapes scalar / 1 x ncol / nrow x ncol / "
        "per-row tuple / short recycled pattern with random legal values (row-level attributes row-constant); nrow "
        "from one page to many; page_by / subline_by removing 0-3 columns at any position; plain / page_by / "
        "subline_by (40 % of these with the sections of one value scattered: A A B A C). Oracle: each parsed data cell carries exactly attr[i % R][j % C] of its ORIGINAL (row, column) "
        "for every attribute (colours resolved through the parsed colour table to RGB against the frozen table), "
        "page-boundary horizontal borders excluded (C07); metamorphic: the per-cell property maps of the "
        "unpaginated (nrow=10^5) and the paginated encoding are identical apart from those boundary borders. "
        "Non-trivial = a matrix / per-row / pattern shape with >=2 pages, or a per-column shape with >=1 removed "
        "column; distinct by sha1 of recipe.")
ASSUMPTIONS = ["per-edge border model of the emitter's documentation: an interior vertical edge is the left border of the cell "
               "to its right, the rightmost edge is the last column's border_right",
               "cells are located by their r<i>c<j> tags"]

CFG = gen.Cfg(max_cols=6, max_rows=40, nrow_range=(2, 30), allow_group_by=True, group_by_p=2, attrs=False, dividers=False, long_text=0.0,
              coord_tags=True, dtypes=("str",), nulls=False, components=False, page_geometry=False, page_borders=False,
              header_modes=("default", "none"), max_page_by=3, half_points=True, subline_return=0.4)
COORD = re.compile(r"^r(\d+)c(\d+)")
BSTYLE = {"striped": "engraved"}     # two names, one RTF keyword
DEFAULTS = {"text_font": 1, "text_font_size": 9, "text_format": "", "text_color": None, "text_background_color": None,
            "text_justification": "c", "text_indent_first": 0, "text_indent_left": 0, "text_indent_right": 0, "text_space": 1,
            "text_space_before": 15, "text_space_after": 15, "text_hyphenation": False, "border_left": "single",
            "border_right": "single", "border_top": "", "border_bottom": "", "border_width": 15, "border_color_left": "",
            "border_color_right": "", "border_color_top": "", "border_color_bottom": "", "cell_height": 0.15,
            "cell_justification": "c", "cell_vertical_justification": "top"}
P_ATTR = 30


@st.composite
def _recipe(draw):
    rec = draw(gen.table_recipe(CFG))
    sec = rec["sections"][0]
    n = R.nrows(sec)
    ncol = len(sec["df"]["cols"])
    attrs = draw(gen.body_attrs(replace(CFG, attrs=True), n, ncol, p=P_ATTR))   # half_points: integer, x.5 and off-grid sizes
    for k, v in attrs.items():
        sec["body"].setdefault(k, v)
    if draw(st.integers(0, 9)) < 3:
        # the body's own page-edge borders (documented RTFBody options; the oracle leaves the top / bottom edge of a page's first /
        # last row to C07): '' = none on both edges is a legal choice
        for key in ("border_first", "border_last"):
            if draw(st.integers(0, 9)) < 7:
                sec["body"][key] = draw(st.sampled_from(["", "", "single", "double"]))
    return rec


def strategy(tier):
    return _recipe()


def budget(tier):
    return 130 if tier == "quick" else 3000


def enumerate_cases(tier):
    """One attribute at a time, matrix shape, on a 3-page table with a removed middle column."""
    n, ncol = 9, 4
    for name in gen.BODY_ATTRS:
        for strat in ("plain", "page_by"):
            cols = [{"name": f"@N{j}", "dtype": "str", "values": [f"r{i}c{j}" for i in range(n)]} for j in range(ncol)]
            body = {}
            if strat == "page_by":
                cols[1]["values"] = [f"@G0:v{i // 4}" for i in range(n)]
                body["page_by"] = ["@N1"]
            vals = _menu(name)
            if name in gen.ROW_LEVEL:
                body[name] = [[vals[i % len(vals)]] * ncol for i in range(n)]
            else:
                body[name] = [[vals[(i * ncol + j) % len(vals)] for j in range(ncol)] for i in range(n)]
            yield {"kind": "table", "page": {"nrow": 5}, "sections": [{"df": {"cols": cols}, "body": body, "headers": "default"}]}
            # the same without any page-edge border of the body, on 5 pages
            yield {"kind": "table", "page": {"nrow": 3}, "sections": [{"df": {"cols": cols}, "body": dict(body, border_first="", border_last=""), "headers": "default"}]}


def _menu(name):
    return {"text_font": [1, 4, 9, 7], "text_font_size": [9, 10, 12.5, 8], "text_format": ["", "b", "i", "bi", "u"],
            "text_justification": ["l", "c", "r", "j"], "text_space": [1, 2], "text_hyphenation": [True, False],
            "border_width": [15, 30, 5], "cell_height": [0.15, 0.3, 0.2], "cell_justification": ["l", "c", "r"],
            "cell_vertical_justification": ["top", "center", "bottom"]}.get(name) or (
        ["red", "blue", "", "gold", "gray50"] if "color" in name else ["single", "double", "", "dashed", "thick"] if name.startswith("border_")
        else [0, 100, 250, 30])


def rgb_of(doc, idx):
    if idx is None or idx == 0:
        return None
    if idx >= len(doc.colors):
        return "dangling"
    return doc.colors[idx]


def want_rgb(name):
    return None if (not name or name == "black") else refdata.color_rgb(name)


def cell_props(doc, row, cell, k, last):
    """Observed properties of one parsed cell, as attribute -> value in the recipe's vocabulary."""
    cp, pp = cell.cprops, cell.pprops
    fmt = "".join(sorted(ch for ch, key in (("b", "b"), ("i", "i"), ("u", "ul"), ("s", "strike"), ("^", "super"), ("_", "sub")) if cp.get(key)))
    out = {
        "text_font": (cp.get("f", -1) or 0) + 1 if cp.get("f") is not None else None,
        "text_font_size_halfpoints": cp.get("fs"),
        "text_format": fmt,
        "text_color": rgb_of(doc, cp.get("cf")),
        "text_background_color": rgb_of(doc, cp.get("chcbpat")),
        "text_background_color_cb": rgb_of(doc, cp.get("cb")),
        "text_justification": pp.get("just", ""),
        "text_indent_first": pp.get("fi"), "text_indent_left": pp.get("li"), "text_indent_right": pp.get("ri"),
        "text_space_sl": pp.get("sl"),
        "text_space_before": pp.get("sb"), "text_space_after": pp.get("sa"),
        "text_hyphenation": bool(pp.get("hyphpar", 0)),
        "cell_vertical_justification": {"t": "top", "c": "center", "b": "bottom", "": ""}.get(cell.valign, cell.valign),
        "cell_height_trgaph": row.rowprops.get("trgaph"),
        "cell_justification": "l" if row.rowprops.get("trql") else "c" if row.rowprops.get("trqc") else "r" if row.rowprops.get("trqr") else "",
    }
    for side, key in (("l", "left"), ("t", "top"), ("b", "bottom"), ("r", "right")):
        bd = cell.borders.get(side)
        if side == "r" and not last:
            out["border_right_present"] = bd is not None
            continue
        out[f"border_{key}"] = None if bd is None else bd["style"]
        out[f"border_width_{key}"] = None if bd is None else bd["w"]
        out[f"border_color_{key}"] = None if bd is None else rgb_of(doc, bd["cf"])
    return out


def expected_props(body, i, j, last):
    g = lambda name: attr_at(body.get(name), i, j, DEFAULTS[name])
    size = g("text_font_size")
    space = g("text_space")
    out = {
        "text_font": g("text_font"),
        "text_font_size_halfpoints": round(size * 2),
        "text_format": "".join(sorted(set(g("text_format") or ""))),
        "text_color": want_rgb(g("text_color")),
        "text_background_color": want_rgb(g("text_background_color")),
        "text_background_color_cb": want_rgb(g("text_background_color")),
        "text_justification": g("text_justification"),
        "text_indent_first": g("text_indent_first"), "text_indent_left": g("text_indent_left"), "text_indent_right": g("text_indent_right"),
        "text_space_sl": None if space == 1 else int(space * 240),
        "text_space_before": g("text_space_before"), "text_space_after": g("text_space_after"),
        "text_hyphenation": bool(g("text_hyphenation")),
        "cell_vertical_justification": g("cell_vertical_justification"),
        "cell_height_trgaph": int(round(attr_at(body.get("cell_height"), i, 0, 0.15) * 1440) / 2),
        "cell_justification": attr_at(body.get("cell_justification"), i, 0, "c"),
    }
    for key in ("left", "top", "bottom", "right"):
        if key == "right" and not last:
            out["border_right_present"] = False
            continue
        style = g(f"border_{key}")
        out[f"border_{key}"] = BSTYLE.get(style, style)
        out[f"border_width_{key}"] = g("border_width")
        out[f"border_color_{key}"] = want_rgb(g(f"border_color_{key}"))
    return out


def cell_maps(case, doc):
    """(i, j) -> observed props, plus page membership and boundary rows."""
    maps, first_rows, last_rows = {}, set(), set()
    pages = classify(doc)
    for items in pages:
        drows = [it for it in items if it.role == "data"]
        for pos, it in enumerate(drows):
            cells = it.block.cells
            for k, cell in enumerate(cells):
                m = COORD.match(cell.text)
                if not m:
                    continue
                i, j = int(m.group(1)), int(m.group(2))
                maps[(i, j)] = cell_props(doc, it.block, cell, k, k == len(cells) - 1)
                if pos == 0:
                    first_rows.add(i)
                if pos == len(drows) - 1:
                    last_rows.add(i)
    return maps, first_rows, last_rows, len(pages)


def check(case) -> Result:
    res = Result()
    out = run_recipe(case)
    if out.build_error:
        res.harness_error = "recipe does not build: " + out.build_error
        return res
    if out.encode_error:
        res.excluded = "encode_raised:" + out.encode_error[0]
        return res
    if not out.doc.ok():
        res.excluded = "malformed_output"
        return res
    sec = case["sections"][0]
    body = sec["body"]
    names = [c["name"] for c in sec["df"]["cols"]]
    disp = R.displayed_columns(sec)
    last_j = names.index(disp[-1]) if disp else -1
    maps, first_rows, last_rows, npages = cell_maps(case, out.doc)
    fails = {}
    for (i, j), got in sorted(maps.items()):
        want = expected_props(body, i, j, j == last_j)
        for key, w in want.items():
            res.checks += 1
            if key not in got:
                continue
            if (key.endswith("_top") and i in first_rows) or (key.endswith("_bottom") and i in last_rows):
                continue        # page-boundary horizontal borders belong to C07
            g = got[key]
            if g != w:
                later = "later_page" if i >= (min(r for r in first_rows if r > 0) if any(r > 0 for r in first_rows) else 10 ** 9) else "first_page"
                attr = re.sub(r"_(halfpoints|sl|trgaph|cb|present)$", "", key)
                attr = re.sub(r"^border_(width|color)_(left|top|bottom|right)$", r"border_\1", attr)
                sig = f"{attr}/{later}"
                if sig not in fails:
                    fails[sig] = f"cell r{i}c{j}: {key} got {g!r} want {w!r}"
    for sig, detail in fails.items():
        res.fail("binding", sig, detail)
    # metamorphic: unpaginated vs paginated
    if npages >= 2:
        flat = copy.deepcopy(case)
        flat["page"] = dict(flat.get("page") or {}, nrow=100000)
        out2 = run_recipe(flat)
        if out2.doc is not None and out2.doc.ok():
            m2, f2, l2, _ = cell_maps(flat, out2.doc)
            mm = {}
            for key_ij, got in maps.items():
                ref = m2.get(key_ij)
                if ref is None:
                    continue
                for key, g in got.items():
                    res.checks += 1
                    i = key_ij[0]
                    if (key.endswith("_top") and (i in first_rows or i in f2)) or (key.endswith("_bottom") and (i in last_rows or i in l2)):
                        continue
                    if ref.get(key) != g:
                        attr = re.sub(r"_(halfpoints|sl|trgaph|cb|present)$", "", key)
                        attr = re.sub(r"^border_(width|color)_(left|top|bottom|right)$", r"border_\1", attr)
                        mm.setdefault(attr, f"cell r{key_ij[0]}c{key_ij[1]}: {key} paginated {g!r} unpaginated {ref.get(key)!r}")
            for attr, detail in mm.items():
                res.fail("paginated_vs_unpaginated", attr, detail)
    shapes = set()
    for k, v in body.items():
        if k in DEFAULTS:
            shapes.add("matrix" if (isinstance(v, list) and v and isinstance(v[0], list)) else "per_row" if isinstance(v, dict) else
                       "per_column" if isinstance(v, list) else "scalar")
    removed = len(R.removed_columns(sec))
    res.labels = [pages_label(npages), f"removed_cols={min(removed, 3)}"] + sorted("shape=" + s for s in shapes)
    res.nontrivial = (npages >= 2 and bool(shapes & {"matrix", "per_row"})) or (removed >= 1 and "per_column" in shapes)
    return res
