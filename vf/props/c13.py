"""C13 - group_by blanks only true repeats and restores context on each page."""
from __future__ import annotations

import itertools

from hypothesis import strategies as st

from .. import recipe as R
from ..common import pages_label, run_recipe
from ..engine import Result
from ..model import classify

ID = "C13"
LEVEL = "exploration"
RULE = ("Key sequences over {a, b, '', 'a|b', 'b|c', '__NULL__', null} with 1-3 group_by levels: exhaustive for a single "
        "level up to length 5 (quick) / 6 (thorough) over the 7 symbols and for two levels up to length 3 (quick) / 4 "
        "(thorough) over 4x4 symbols (incl. the '|' and '__NULL__' dictionary tokens), each at page capacities 2, 3 and "
        "unbounded; random sequences up to length 60 with 1-3 levels, nrow such that page starts fall on every row "
        "position, optionally combined with page_by / subline_by on other columns, contiguous and deliberately "
        "non-contiguous orders (half of them encoded right after the same rows in grouped order, in the same process); "
        "group columns standing in the frame in group_by order, reversed, or after the other columns. Oracle (reference, null is a value): a group cell of level l on row i is '' iff i is "
        "not the first data row of its page and the prefix key (levels <= l) equals that of row i-1, else the "
        "display text; other columns equal the input; forward-filling blanks within a page reconstructs the column "
        "(when it has no null/empty values). Rejection: full key non-contiguous -> ValueError required; every prefix "
        "key contiguous -> must encode; (full key contiguous, a proper prefix not) -> either. Non-trivial = a "
        "repeat is suppressed and a page starts inside a group, or a null key, or a refused order.")
ASSUMPTIONS = ["a suppressed cell and an original null both display as the empty string",
               "display text = str(value), '' for null"]

SYMS = ["a", "b", "", "a|b", "b|c", "__NULL__", None]
L1 = ["a", "a|b", None, "__NULL__"]
L2 = ["c", "b|c", None, "k"]


def make(levels_vals, nrow=100, extra=None, body_extra=None, layout="front"):
    """layout: where the group columns stand in the frame - 'front' (in group_by order), 'reversed' (inner level left
    of the outer one) or 'tail' (after the other columns, reversed); group_by always lists outer -> inner."""
    n = len(levels_vals[0]) if levels_vals else 0
    gcols = [{"name": f"@N{l}", "dtype": "str", "values": list(v)} for l, v in enumerate(levels_vals)]
    k = len(gcols)
    others = [{"name": f"@N{k}", "dtype": "str", "values": [f"r{i}c{k}" for i in range(n)]},
              {"name": f"@N{k + 1}", "dtype": "int", "values": [i * 7 if i % 3 else None for i in range(n)]}]
    cols = {"front": gcols + others, "reversed": gcols[::-1] + others, "tail": others + gcols[::-1]}[layout]
    body = {"group_by": [f"@N{l}" for l in range(len(levels_vals))], "text_convert": False}
    if extra:
        cols.append(extra)
    if body_extra:
        body.update(body_extra)
    return {"kind": "table", "page": {"nrow": nrow}, "sections": [{"df": {"cols": cols}, "body": body, "headers": "none"}]}


def enumerate_cases(tier):
    max1 = 5 if tier == "quick" else 6
    max2 = 3 if tier == "quick" else 4
    k = 0
    for n in range(1, max1 + 1):
        for seq in itertools.product(SYMS, repeat=n):
            k += 1
            yield make([seq], nrow=(2, 3, 100)[k % 3])
    pairs = list(itertools.product(L1, L2))
    for n in range(1, max2 + 1):
        for seq in itertools.product(pairs, repeat=n):
            k += 1
            yield make([[p[0] for p in seq], [p[1] for p in seq]], nrow=(2, 3, 100)[k % 3], layout=("front", "reversed", "tail")[(k // 3) % 3])


@st.composite
def _random(draw):
    levels = draw(st.integers(1, 3))
    n = draw(st.integers(1, 60))
    alph = draw(st.sampled_from([SYMS, ["a", "b", None], ["a", "b", "c", "d"], ["x", "", None, "a|b"]]))
    # hierarchical runs (contiguous by construction); values drawn from the alphabet without reuse inside a parent
    cols = [[None] * n for _ in range(levels)]

    def fill(level, lo, hi):
        if level >= levels or lo >= hi:
            return
        pool = list(draw(st.permutations(alph)))
        pos = lo
        while pos < hi:
            r = min(hi - pos, draw(st.integers(1, 6)))
            v = pool.pop() if pool else f"u{pos}"
            for i in range(pos, pos + r):
                cols[level][i] = v
            fill(level + 1, pos, pos + r)
            pos += r

    fill(0, 0, n)
    mode = draw(st.sampled_from(["contiguous", "contiguous", "swap", "shuffle_block"]))
    if mode != "contiguous" and n >= 3:
        a, b = draw(st.integers(0, n - 1)), draw(st.integers(0, n - 1))
        for c in cols:
            c[a], c[b] = c[b], c[a]
    extra = body_extra = None
    other = draw(st.sampled_from([None, None, "page_by", "subline"]))
    if other:
        tag = "@G0" if other == "page_by" else "@B0"
        vals, pos, g = [], 0, 0
        while pos < n:
            r = min(n - pos, draw(st.integers(2, 20)))
            vals += [f"{tag}:v{g}"] * r
            g += 1
            pos += r
        extra = {"name": "@Nx", "dtype": "str", "values": vals}
        body_extra = {"page_by": ["@Nx"]} if other == "page_by" else {"subline_by": ["@Nx"]}
    rec = make(cols, nrow=draw(st.one_of(st.integers(1, 12), st.just(100))), extra=extra, body_extra=body_extra,
               layout=draw(st.sampled_from(["front", "front", "reversed", "tail"])))
    if draw(st.booleans()):
        rec["sections"][0]["headers"] = "default"
    if mode != "contiguous" and draw(st.booleans()):
        # history: the same complete rows, ordered so that the keys are contiguous, are encoded first in this process
        rec["warmup"] = "same_rows_grouped"
    return rec


def strategy(tier):
    return _random()


def budget(tier):
    return 150 if tier == "quick" else 4000


def contiguity(keys):
    seen, cur = set(), object()
    first = True
    for k in keys:
        if first or k != cur:
            if k in seen:
                return False
            seen.add(k)
            cur = k
            first = False
    return True


def check(case) -> Result:
    res = Result()
    sec = case["sections"][0]
    gb = sec["body"]["group_by"]
    names = [c["name"] for c in sec["df"]["cols"]]
    gcols = [R.column(sec, g)["values"] for g in gb]
    n = R.nrows(sec)
    full = [tuple(c[i] for c in gcols) for i in range(n)]
    full_ok = contiguity(full)
    all_prefix_ok = all(contiguity([k[: l + 1] for k in full]) for l in range(len(gb)))
    has_null = any(None in k for k in full)
    if case.get("warmup"):
        order, first_seen = [], {}
        for i, k in enumerate(full):
            first_seen.setdefault(k, len(first_seen))
        order = sorted(range(n), key=lambda i: (first_seen[full[i]], i))
        import copy
        warm = copy.deepcopy({k: v for k, v in case.items() if k != "warmup"})
        for c in warm["sections"][0]["df"]["cols"]:
            c["values"] = [c["values"][i] for i in order]
        run_recipe(warm, parse=False)
    out = run_recipe(case)
    if out.build_error:
        if out.build_error.split(":")[0] in ("ValueError", "ValidationError"):
            # refused when the document is constructed: fine for non-contiguous keys, a violation for contiguous ones
            res.checks = 1
            if all_prefix_ok:
                res.fail("rejection", "contiguous_data_refused_at_construction" + ("/null_key" if has_null else ""), f"keys {full[:8]}: {out.build_error[:160]}")
            res.labels = [f"levels={len(gb)}", "refused_at_construction"]
            res.nontrivial = True
            return res
        res.harness_error = "recipe does not build: " + out.build_error
        return res
    res.checks = 1
    labels = [f"levels={len(gb)}", "null_key" if has_null else "no_null", "contiguous" if all_prefix_ok else ("ambiguous" if full_ok else "noncontiguous")]
    if out.encode_error:
        etype, frame, msg = out.encode_error
        if etype != "ValueError":
            res.fail("rejection", f"wrong_exception:{etype}", msg)
        elif all_prefix_ok:
            res.fail("rejection", "contiguous_data_refused" + ("/null_key" if has_null else "") + ("/token_key" if any(isinstance(v, str) and ("|" in v or "__NULL__" in v) for k in full for v in k) else ""),
                     f"keys {full[:8]}: {msg[:120]}")
        res.labels = labels + ["refused"]
        res.nontrivial = True
        return res
    if not full_ok:
        res.fail("rejection", "noncontiguous_data_rendered", f"keys {full[:8]}")
        res.labels = labels
        return res
    if not out.doc.ok():
        res.excluded = "malformed_output"
        return res
    pages = classify(out.doc)
    disp = R.displayed_columns(sec)
    i = 0
    suppressed_any = page_start_inside = False
    for pn, items in enumerate(pages):
        first_on_page = True
        fill = {}
        for it in items:
            if it.role != "data":
                continue
            if i >= n or len(it.texts) != len(disp):
                res.fail("shape", "row_or_column_count", f"row {i}: {it.texts}")
                return res
            for name, got in zip(disp, it.texts):
                col = R.column(sec, name)["values"]
                res.checks += 1
                if name in gb:
                    lvl = gb.index(name)
                    repeat = i > 0 and full[i][: lvl + 1] == full[i - 1][: lvl + 1]
                    want = "" if (repeat and not first_on_page) else R.display(col[i])
                    if repeat and first_on_page and pn > 0:
                        page_start_inside = True
                    if repeat and not first_on_page:
                        suppressed_any = True
                    if got != want:
                        kind = ("repeat_not_blanked" if want == "" else ("page_context_not_restored" if (repeat and first_on_page) else "value_wrongly_blanked" if got == "" else "value_altered"))
                        why = "null_neighbour" if (i > 0 and (None in full[i] or None in full[i - 1])) else "plain"
                        res.fail("suppression", f"{kind}/level{lvl}/{why}", f"row {i} level {lvl}: got {got!r} want {want!r}; keys {full[max(0, i - 2): i + 1]}")
                    # forward fill
                    if got != "":
                        fill[name] = got
                    if all(v not in (None, "") for v in col):
                        if fill.get(name) != R.display(col[i]):
                            res.fail("suppression", f"forward_fill/level{lvl}", f"row {i}")
                else:
                    if got != R.display(col[i]):
                        res.fail("other_columns", "altered", f"row {i} column {name}: got {got!r} want {R.display(col[i])!r}")
            first_on_page = False
            i += 1
    if i != n:
        res.fail("shape", "rows_missing", f"{i} of {n} rows rendered")
    res.labels = labels + [pages_label(len(pages)), "suppressed" if suppressed_any else "nothing_suppressed"]
    res.nontrivial = (suppressed_any and page_start_inside) or has_null
    return res
