"""C03 - no page exceeds the nrow row budget."""
from __future__ import annotations

import itertools

from hypothesis import strategies as st

from .. import findings as findings_mod
from .. import pgen
from ..common import pages_label, run_recipe
from ..engine import Result
from ..pagemodel import analyze, group_values, headings_brought

ID = "C03"
LEVEL = "exploration"
RULE = ("Single-section tables from a pagination-oriented generator: 0-60 rows whose line heights 1-6 are produced "
        "by a calibrated filler for the cell's OWN font (1-10) and size (6-24), nrow 1-50, header explicit / "
        "default(auto) / multi-row / none, footnote and source absent / table / paragraph under any placement, "
        "plain / page_by (1-3 levels, new_page on/off) / subline_by with group runs sized relative to the page "
        "capacity (straddling and not straddling breaks), page_by values, subline_by values and column header labels that wrap to 2-3 "
        "lines across the table / the text area / in their cell (every column of 1-4 column tables), group_by listings whose labels take 1-3 lines; plus an exhaustive sweep header(4) x footnote(3) x "
        "source(3) x strategy(3) x nrow 3..12 on 1-line rows. Oracle: per parsed page, sum of independent "
        "lower-bound line weights (PIL on the bundled font files, parsed font/size/\\cellx) of header rows, heading "
        "rows, subline heading, data rows and table footnote/source rows <= nrow, except on a page with exactly "
        "one data row. An excess is decomposed into named contributions; only the part not explained by "
        "findings listed in KNOWN_FINDINGS.txt is a violation. Non-trivial = >=2 pages and some page filled to "
        "within 1 of its budget.")
ASSUMPTIONS = ["weight of a row = max over its cells of ceil(text width / cell width) at the parsed font and size: "
               "a lower bound on what any RTF viewer needs", "footnote/source rows count 1; header and heading rows are weighted like data rows (their labels are short tags or calibrated fillers)"]

CONTRIBS = ("auto_header_unreserved", "font_ignorant_heights", "continuation_heading_unbudgeted", "nested_level_heading_unbudgeted")


def strategy(tier):
    return st.one_of(
        pgen.pag_recipe(fonts=True, max_rows=60, nrow_range=(1, 50), levels_max=3, subline_with_page_by=True, widths=True, nulls=True, glyph_mix=True),
        pgen.pag_recipe(fonts=False, max_rows=40, nrow_range=(2, 14), levels_max=2, nulls=True, widths=True, tall_headings=True),
        pgen.pag_recipe(fonts=False, max_rows=40, nrow_range=(6, 16), levels_max=2, strategies=("page_by", "page_by_new", "subline"), pageby_rows=("column", "first_row"),
                        tall_headings=True, fn_src=False, headers=("explicit", "none")),
        # group_by listings: labels of 1-3 lines, blanked on repeats and restored on the first row of every page
        pgen.pag_recipe(fonts=False, max_rows=40, nrow_range=(4, 14), strategies=("plain",), headers=("explicit", "none"), group_by=True, max_height=2,
                        fn_src=False),
        # column header labels that wrap to 2-3 lines in their own cell
        pgen.pag_recipe(fonts=False, max_rows=40, nrow_range=(5, 16), levels_max=1, headers=("explicit", "multi"), tall_headers=True, max_height=2),
        pgen.pag_recipe(fonts=False, max_rows=30, nrow_range=(2, 12), levels_max=1, headers=("explicit", "multi", "none"), glyph_mix=True),
        # tight pages: nothing reserved that is not rendered, so a single uncounted line shows up as an overflow
        pgen.pag_recipe(fonts=False, max_rows=40, nrow_range=(3, 12), levels_max=2, headers=("explicit", "none"), fn_src=False,
                        nulls=True, dividers=True, max_height=2, strategies=("page_by", "page_by", "plain", "subline"), subline_with_page_by=True),
        pgen.pag_recipe(fonts=True, max_rows=40, nrow_range=(3, 14), levels_max=1, headers=("explicit", "none"), fn_src=False,
                        widths=True, strategies=("plain", "page_by")),
    )


def budget(tier):
    return 160 if tier == "quick" else 3000


def enumerate_cases(tier):
    nrows = (3, 5, 8, 12) if tier == "quick" else range(3, 13)
    for hdr, fn, src, strat, nrow in itertools.product(("explicit", "default", "multi", "none"), (None, "table", "para"),
                                                       (None, "table", "para"), ("plain", "page_by", "subline"), nrows):
        n = 17
        groups = [pgen.runs_to_values([4, 3, 6, 4], "@G", 0)] if strat == "page_by" else None
        sub = pgen.runs_to_values([5, 7, 5], "@B", 0) if strat == "subline" else None
        rec = pgen.make_table([1] * n, groups, ndata=2, subline=sub, page_by_levels=1 if groups else 0, header=hdr,
                              footnote=fn, source=src, nrow=nrow)
        rec["strategy"] = strat
        yield rec
    # null page_by values: a run of rows without a group value between named groups (and at the start), pages filled exactly
    for nrow, hdr, lead in itertools.product((5, 6, 7, 8, 9), ("explicit", "none"), (False, True)):
        runs = ([(2, None)] if lead else []) + [(4, "@G0:v0"), (2, None), (5, "@G0:v1"), (1, None), (6, "@G0:v2")]
        vals = [v for k, v in runs for _ in range(k)]
        rec = pgen.make_table([1] * len(vals), [vals], ndata=2, page_by_levels=1, header=hdr, nrow=nrow)
        rec["strategy"] = "page_by"
        yield rec
    # a missing value in the wide first column, a wrapping text in the narrow second one
    for rel, nrow, k in itertools.product(([4, 1], [3, 1], [5, 2]), (6, 9), (2, 3)):
        n = 16
        rec = pgen.make_table([k if i % 2 else 1 for i in range(n)], None, ndata=2, header="explicit", nrow=nrow, rel_widths=rel,
                              tall_cols=[1] * n, null_cells={f"{i},0" for i in range(n)})
        rec["strategy"] = "plain"
        yield rec
    # the same long text in a wide and in a narrow column of one row (1 line there, several here), unequal widths
    from .. import metrics
    for rel, nrow in itertools.product(([1, 4, 1], [1, 1, 4], [2, 5, 1], [1, 6, 2]), (6, 9, 12)):
        wide = max(range(1, 3), key=lambda j: rel[j])
        text = metrics.filler(1, pgen.COL_WIDTH * rel[wide] / sum(rel), 1, 9, prefix="same text " + " ".join(metrics.WORDS))
        if text is None:
            text = " ".join(metrics.WORDS * 2)
        shared = {f"{i},{j}": text for i in range(1, 24, 2) for j in (1, 2)}
        rec = pgen.make_table([1] * 24, None, ndata=3, header="explicit", nrow=nrow, rel_widths=rel, shared=shared)
        rec["strategy"] = "plain"
        yield rec
    # large body fonts: short texts (few characters) that wrap only because of the type size, narrow columns
    for size, ndata, glyph, nrow in itertools.product((14, 18, 24, 30), (2, 3, 5), ("normal", "wide"), (8, 12)):
        n = 18
        rec = pgen.make_table([2 if i % 3 else 1 for i in range(n)], None, ndata=ndata, header="explicit", nrow=nrow, sizes=[size] * ndata,
                              glyphs=[glyph])
        rec["strategy"] = "plain"
        yield rec
    # page_by headings set in the key column's own (large / wide) type: one line at 9 pt, 2-3 lines as rendered
    for (gfont, gsize), k, nrow, levels in itertools.product(((1, 18), (4, 14), (9, 24), (1, 9)), (2, 3), (7, 10), (1, 2)):
        heads = []
        for lvl in range(levels):
            per = 5 if lvl == 0 else 2
            vals = []
            for i in range(15):
                g = i // per
                t = metrics.filler(k if g % 2 == 0 else 1, pgen.COL_WIDTH, gfont, gsize, prefix=f"@G{lvl}:v{g}") or f"@G{lvl}:v{g}"
                vals.append(t)
            heads.append(vals)
        rec = pgen.make_table([1] * 15, heads, ndata=2, page_by_levels=levels, header="explicit", nrow=nrow, group_style=(gfont, gsize))
        rec["strategy"] = "page_by"
        yield rec
    # a header label of 2 / 3 lines in each column of a 1-4 column table, pages filled exactly
    for ndata, k, nrow in itertools.product((1, 2, 3, 4), (2, 3), (6, 9)):
        for col in range(ndata):
            rec = pgen.make_table([1] * 20, None, ndata=ndata, header="explicit", nrow=nrow, tall_header=k, tall_header_col=col)
            rec["strategy"] = "plain"
            yield rec


def _open():
    return {f.sig for f in findings_mod.load(ID)}


def overflows(case, pages, open_auto_header: bool):
    """Per-page budget analysis shared with C04's if-direction.
    Returns (known, unknown, near_full): known = list of (contribution, info) explained by the open finding,
    unknown = (residual, signature, info) of the worst unexplained overflow or None."""
    nrow = case["page"]["nrow"]
    pb_keys, _ = group_values(case)
    near_full = False
    worst = None
    known = []
    prev_last_key = None
    for p in pages:
        tot = p.total()
        if tot >= nrow - 1:
            near_full = True
        keys = [pb_keys[d.index] if (d.index is not None and d.index < len(pb_keys)) else () for d in p.data]
        if tot > nrow and len(p.data) >= 2:  # a page with one (or no) data row cannot be made smaller
            excess = tot - nrow
            contrib = {}
            if p.auto_header_rows:
                contrib["auto_header_unreserved"] = p.auto_header_rows
            font = sum(max(0, d.weight - d.lib_estimate) for d in p.data)
            if font:
                contrib["font_ignorant_heights"] = font
            if p.headings and p.data and keys and keys[0] and prev_last_key is not None:
                first_pos = p.data[0].pos
                top = [h for h in p.headings if h[0] < first_pos]
                same_prefix = 0
                for a_, b_ in zip(prev_last_key, keys[0]):
                    if a_ == b_:
                        same_prefix += 1
                    else:
                        break
                cont = sum(1 for h in top if 0 <= h[1] < same_prefix)
                if cont:
                    contrib["continuation_heading_unbudgeted"] = cont
            nested = 0
            pk = prev_last_key
            for j, k in enumerate(keys):
                if not k:
                    continue
                if j == 0:
                    if pk is None or pk != k:
                        shown = sum(1 for h in p.headings if h[0] < p.data[0].pos)
                        started = sum(1 for v in k if v not in ("-----", None))
                        cont = contrib.get("continuation_heading_unbudgeted", 0)
                        nested += max(0, shown - cont - 1) if started else 0
                else:
                    nested += max(0, headings_brought(keys[j - 1], k) - 1)
            if nested:
                contrib["nested_level_heading_unbudgeted"] = nested
            explained = contrib.get("auto_header_unreserved", 0) if open_auto_header else 0
            residual = excess - explained
            info = (f"page {p.number + 1}: {tot} lines > nrow {nrow} (headers {p.header_rows}, headings {len(p.headings)}, data "
                    f"{[d.weight for d in p.data]}, subline {max(len(p.sublineheads), p.subline_lines)}, fn {p.fn_rows}, src {p.src_rows}); contributions {contrib}")
            if residual > 0:
                unexplained = sorted(c for c in contrib if not (c == "auto_header_unreserved" and open_auto_header))
                sig = "overflow:" + ("+".join(unexplained) if unexplained else "unattributed")
                if worst is None or residual > worst[0]:
                    worst = (residual, sig, info)
            elif explained:
                known.append(("auto_header_unreserved", info))
        if p.data:
            last = p.data[-1]
            if last.index is not None and last.index < len(pb_keys):
                prev_last_key = pb_keys[last.index] or None
    return known, worst, near_full


def check(case) -> Result:
    res = Result()
    out = run_recipe(case)
    if out.build_error:
        res.harness_error = "recipe does not build: " + out.build_error
        return res
    if out.encode_error:
        res.excluded = "encode_raised:" + out.encode_error[0]
        return res
    if not out.doc.ok():
        res.excluded = "malformed_output"
        return res
    pages = analyze(out.doc)
    pb_keys, _ = group_values(case)
    res.checks += len(pages)
    known, worst, near_full = overflows(case, pages, "budget/auto_header_unreserved" in _open())
    if known:
        res.fail("budget", "auto_header_unreserved", known[0][1])
    if worst:
        res.fail("budget", worst[1], worst[2])
    body = case["sections"][0].get("body", {})
    res.labels = [pages_label(len(pages)), "strategy=" + case.get("strategy", "?"), "fonts" if "text_font" in body else "default_font",
                  "header=" + (case["sections"][0]["headers"] if isinstance(case["sections"][0]["headers"], str) else f"explicit{len(case['sections'][0]['headers'])}"),
                  "near_full" if near_full else "slack", f"levels={len(body.get('page_by', []))}",
                  "null_group" if any(None in k for k in pb_keys) else "no_null_group", "rel_widths" if "col_rel_width" in body else "equal_widths",
                  "group_by" if body.get("group_by") else "no_group_by"]
    res.nontrivial = len(pages) >= 2 and near_full
    return res
