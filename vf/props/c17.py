"""C17 - assemble_rtf yields one well-formed document with every input in order."""
from __future__ import annotations

import contextlib
import hashlib
import io
import os
import shutil
from dataclasses import replace

from hypothesis import strategies as st

from .. import gen
from .. import recipe as R
from ..engine import Result
from ..rtfread import Para, Pict, Row, read

ID = "C17"
LEVEL = "exploration"
RULE = ("1-6 input files written by write_rtf from the universal document strategy (single / multi-page tables, "
        "multi-section, figure documents; portrait / landscape / custom paper; with page header / footer; coloured; "
        "cell texts incl. the dictionary word 'fcharset'; inputs of 100-700 KB - listings of 300-1500 rows and figures with 40-300 KB payloads - "
        "alone, first, last and between small ones), in any order, possibly the same path twice; plus the "
        "empty list, a list with one missing path at any position, and a pre-existing output file. Oracle: the "
        "assembled file has zero lexical / structural anomalies (C01's predicate: one balanced {\\rtf1 group, "
        "nothing after it, well-formed rows); its page list equals the concatenation of the inputs' page lists "
        "compared as (block kind, decoded paragraph text, row cell texts, text / background colours resolved through the colour "
        "table in force at that point, picture bytes); the first page of input "
        "k carries input k's paper geometry; a single input is reproduced byte-identically; the empty list "
        "creates no file; a missing input raises FileNotFoundError and leaves the output path as it was. "
        "Non-trivial = >=2 inputs of which one is multi-page or of another kind / geometry.")
ASSUMPTIONS = ["page contents are compared after parsing both the inputs and the output with the same independent reader"]

CFG = gen.Cfg(max_cols=4, max_rows=10, nrow_range=(2, 12), allow_group_by=False, attrs=True, long_text=0.0)
GEOM = ("paperw", "paperh", "margl", "margr", "margt", "margb", "headery", "footery")


def big_table(nrows, tag):
    """A listing whose RTF is well above 64 KiB (a few hundred rows)."""
    cols = [{"name": f"@N{j}", "dtype": "str", "values": [f"{tag}{i}c{j} listing text" for i in range(nrows)]} for j in range(3)]
    return {"kind": "table", "page": {"nrow": 40}, "sections": [{"df": {"cols": cols}, "body": {}, "headers": "default"}], "title": {"text": ["@T0 " + tag]}}


def big_figure(nbytes, tag):
    """A figure document whose single picture payload is nbytes long (hex: twice that)."""
    body = b"\x89PNG\r\n\x1a\n" + (13).to_bytes(4, "big") + b"IHDR" + (640).to_bytes(4, "big") + (480).to_bytes(4, "big") + bytes([8, 2, 0, 0, 0]) + bytes(4)
    fill = hashlib.sha256(tag.encode()).digest()
    data = (body + fill * (nbytes // len(fill) + 1))[:nbytes]
    return {"kind": "figure", "page": {"nrow": 40}, "figure": {"files": [{"suffix": ".png", "stem": "big" + tag, "hex": data.hex(), "format": "png", "w": 640, "h": 480}]},
            "title": {"text": ["@T0 " + tag]}}


def enumerate_cases(tier):
    """Inputs larger than any plausible read-buffer size: alone, first, last and in the middle of small ones."""
    small = {"kind": "table", "page": {"nrow": 40}, "sections": [{"df": {"cols": [{"name": "@N0", "dtype": "str", "values": ["s0", "s1"]}]}, "body": {}, "headers": "default"}]}
    bigs = [big_table(400, "a"), big_figure(48 * 1024, "b")] + ([big_table(1500, "c"), big_figure(300 * 1024, "d")] if tier == "thorough" else [])
    for big in bigs:
        for docs in ([big], [big, small], [small, big], [small, big, small], [big, big]):
            yield {"docs": docs, "order": list(range(len(docs))), "mode": "normal", "missing_at": 0}
    other = {"kind": "table", "page": {"nrow": 40, "orientation": "landscape"},
             "sections": [{"df": {"cols": [{"name": "@N0", "dtype": "str", "values": ["t0", "t1", "t2"]}]}, "body": {}, "headers": "default"}]}
    for names in sorted(NAMES):
        for docs in ([small], [small, other], [other, small, other]):
            for mode in ("normal", "missing"):
                yield {"docs": docs, "order": list(range(len(docs))), "mode": mode, "missing_at": len(docs) - 1, "names": names}


# file names that are legal paths but read as patterns (glob / regex / format / shell) by careless code; each comes with a look-alike
# DECOY file in the same directory that such a reading would pick up instead of / in addition to the named file
NAMES = {"brackets": ("t-ae[{k}].rtf", "t-ae{k}.rtf"), "question": ("in?{k}.rtf", "inX{k}.rtf"), "star": ("in*{k}.rtf", "in-more-{k}.rtf"),
         "braces_percent": ("r{{0}}%s{k}.rtf", "r0%s{k}.rtf"), "spaces_unicode": ("t\u00e4 b {k} .rtf", "t\u00e4 b {k}.rtf")}
DECOY = b"{\\rtf1\\ansi\\deff0 {\\fonttbl{\\f0 Times New Roman;}}\n\\paperw12240\\paperh15840\n{\\pard DECOY FILE\\par}\n}"


@st.composite
def _case(draw):
    n = draw(st.integers(1, 6))
    docs = [draw(gen.universal(CFG, weights=(5, 2, 3))) for _ in range(n)]
    if draw(st.integers(0, 9)) < 2:      # one input well above 64 KiB
        k = draw(st.integers(0, n - 1))
        docs[k] = big_table(draw(st.integers(300, 600)), f"x{k}") if draw(st.booleans()) else big_figure(draw(st.integers(40000, 90000)), f"y{k}")
    if draw(st.integers(0, 9)) < 3:      # a body cell that says 'fcharset'
        for d in docs:
            if d["kind"] == "table" and d["sections"][0]["df"]["cols"] and R.nrows(d["sections"][0]) > 0:
                c = d["sections"][0]["df"]["cols"][-1]
                if c["dtype"] == "str" and not c["name"] in (d["sections"][0]["body"].get("page_by") or []) + (d["sections"][0]["body"].get("subline_by") or []):
                    c["values"][-1] = "the fcharset word"
                    break
    order = list(range(n))
    if n >= 2 and draw(st.integers(0, 9)) < 2:
        order.append(draw(st.integers(0, n - 1)))      # the same file listed twice
    mode = draw(st.sampled_from(["normal"] * 7 + ["missing", "empty", "preexisting"]))
    case = {"docs": docs, "order": order, "mode": mode, "missing_at": draw(st.integers(0, n))}
    if draw(st.integers(0, 9)) < 3:
        case["names"] = draw(st.sampled_from(sorted(NAMES)))
    return case


def strategy(tier):
    return _case()


def budget(tier):
    return 60 if tier == "quick" else 1500


def colours_of(doc, t):
    """Text / background colour of a paragraph or cell as RGB, resolved through the colour table in force where it stands
    (a later {\\colortbl} group replaces the earlier one for everything after it)."""
    cp = t.cprops
    k = cp.get("_ct", 0)
    table = doc.colortbls[k - 1] if 0 < k <= len(doc.colortbls) else []

    def rgb(ix):
        if not ix:
            return None
        return table[ix] if ix < len(table) else "dangling"

    return (rgb(cp.get("cf")), rgb(cp.get("chcbpat")) or rgb(cp.get("cb")))


def page_sig(doc):
    pages = []
    for pg in doc.pages:
        items = []
        for b in pg:
            if isinstance(b, Para):
                if b.text:
                    items.append(("para", b.text, colours_of(doc, b)))
            elif isinstance(b, Row):
                items.append(("row", tuple(c.text for c in b.cells), tuple(colours_of(doc, c) for c in b.cells)))
            elif isinstance(b, Pict):
                items.append(("pict", hashlib.sha1(b.data).hexdigest()[:12], len(b.data)))
        pages.append(items)
    return pages


def check(case) -> Result:
    from rtflite.assemble import assemble_rtf

    res = Result()
    work = os.path.join(os.environ.get("VERIF_WORK") or os.environ.get("TMPDIR") or "/tmp", f"c17_{os.getpid()}")
    shutil.rmtree(work, ignore_errors=True)
    os.makedirs(work)
    paths, parsed, raw = [], [], []
    try:
        for k, rec in enumerate(case["docs"]):
            p = os.path.join(work, f"in{k}.rtf")
            if case.get("names"):
                p = os.path.join(work, NAMES[case["names"]][0].format(k=k))
                with open(os.path.join(work, NAMES[case["names"]][1].format(k=k)), "wb") as f:
                    f.write(DECOY)
            built = R.build(rec, workdir=work)
            with contextlib.redirect_stdout(io.StringIO()):
                built.doc.write_rtf(p)
            with open(p, "rb") as f:
                data = f.read()
            d = read(data, track_colortbl=True)
            if not d.ok():
                res.excluded = "input_not_well_formed"
                return res
            paths.append(p)
            parsed.append(d)
            raw.append(data)
    except ValueError:
        res.excluded = "input_refused"
        return res
    except Exception as e:
        res.harness_error = f"input generation failed: {type(e).__name__}: {e}"
        return res
    order = case["order"]
    inputs = [paths[i] for i in order]
    outp = os.path.join(work, "out", "combined.rtf")
    os.makedirs(os.path.dirname(outp))
    mode = case["mode"]
    kinds = [case["docs"][i]["kind"] for i in order]
    res.checks += 1
    if mode == "empty":
        assemble_rtf([], outp)
        if os.path.exists(outp):
            res.fail("empty_list", "file_created", "")
        res.labels = ["mode=empty"]
        res.nontrivial = True
        return res
    if mode in ("missing", "preexisting"):
        with open(outp, "wb") as f:
            f.write(b"PREVIOUS CONTENT")
    if mode == "missing":
        bad = list(inputs)
        missing = os.path.join(work, "nope", "missing.rtf")
        if case.get("names"):       # the named file does not exist, its look-alike does
            missing = os.path.join(work, NAMES[case["names"]][0].format(k=99))
            with open(os.path.join(work, NAMES[case["names"]][1].format(k=99)), "wb") as f:
                f.write(DECOY)
        bad.insert(min(case["missing_at"], len(bad)), missing)
        try:
            assemble_rtf(bad, outp)
            res.fail("missing_input", "no_exception", "")
        except FileNotFoundError:
            pass
        except Exception as e:
            res.fail("missing_input", f"wrong_exception:{type(e).__name__}", str(e)[:100])
        with open(outp, "rb") as f:
            if f.read() != b"PREVIOUS CONTENT":
                res.fail("missing_input", "output_modified", "")
        if sorted(os.listdir(os.path.dirname(outp))) != ["combined.rtf"]:
            res.fail("missing_input", "debris", str(os.listdir(os.path.dirname(outp))))
        res.labels = ["mode=missing", f"inputs={len(inputs)}"]
        res.nontrivial = True
        return res
    try:
        assemble_rtf(inputs, outp)
    except Exception as e:
        res.fail("assemble_raises", type(e).__name__, str(e)[:200])
        return res
    with open(outp, "rb") as f:
        data = f.read()
    if len(inputs) == 1:
        res.checks += 1
        if data != raw[order[0]]:
            res.fail("single_input", "not_identical", f"{len(data)} bytes vs {len(raw[order[0]])}")
    d = read(data, track_colortbl=True)
    tag = "+".join(sorted(set(kinds)))
    pos_kind = lambda k: f"{kinds[k]}@{'first' if k == 0 else 'later'}"
    seen = set()
    for e in d.lex + d.anom:
        if e[0] not in seen:
            seen.add(e[0])
            res.fail("malformed", f"{e[0]}/{tag}", repr(e)[:160])
    want_pages, starts = [], []
    for i in order:
        starts.append(len(want_pages))
        want_pages += page_sig(parsed[i])
    got_pages = page_sig(d)
    res.checks += len(want_pages)
    if got_pages != want_pages:
        # attribute the first difference to the input it falls in
        idx = next((k for k, (a, b) in enumerate(zip(got_pages, want_pages)) if a != b), min(len(got_pages), len(want_pages)))
        which = max(k for k, s in enumerate(starts) if s <= idx) if starts else 0
        what = "page_count" if len(got_pages) != len(want_pages) else "page_content"
        fch = "fcharset_in_text" if any("fcharset" in str(p) for p in want_pages) else "no_fcharset_text"
        res.fail("pages", f"{what}/{pos_kind(which)}/{fch}", f"page {idx + 1}: got {str(got_pages[idx] if idx < len(got_pages) else None)[:200]} want {str(want_pages[idx] if idx < len(want_pages) else None)[:200]}")
    elif not seen:
        for k, i in enumerate(order):
            g_in = parsed[i].geom[0]
            g_out = d.geom[starts[k]] if starts[k] < len(d.geom) else {}
            res.checks += 1
            bad = [key for key in GEOM if g_out.get(key) != g_in.get(key)]
            if bad:
                res.fail("geometry", f"{pos_kind(k)}", f"input {k} starts on page {starts[k] + 1}: {[(key, g_out.get(key), g_in.get(key)) for key in bad][:3]}")
    multi = any(len(parsed[i].pages) > 1 for i in order)
    geoms = {tuple(parsed[i].geom[0].get(k) for k in GEOM) for i in order}
    res.labels = [f"inputs={min(len(inputs), 4)}", "names=" + case.get("names", "plain"), "kinds=" + tag, "mode=" + mode, "multi_page_input" if multi else "single_page_inputs",
                  "geometries=" + str(min(len(geoms), 3))]
    res.nontrivial = len(inputs) >= 2 and (multi or len(set(kinds)) > 1 or len(geoms) > 1)
    return res


def reductions(case):
    """Fewer inputs, then simpler inputs."""
    import copy as _copy
    from ..reduce import generic_reductions
    docs, order = case["docs"], case["order"]
    if len(order) > 1:
        for i in range(len(order)):
            yield dict(case, order=order[:i] + order[i + 1:])
    used = sorted(set(order))
    if len(used) < len(docs):
        remap = {old: new for new, old in enumerate(used)}
        yield dict(case, docs=[docs[i] for i in used], order=[remap[i] for i in order])
    for i in sorted(set(order)):
        k = 0
        for cand in generic_reductions(docs[i]):
            k += 1
            if k > 12:
                break
            nd = _copy.deepcopy(docs)
            nd[i] = cand
            yield dict(case, docs=nd)
