"""C07 - table edges are closed by the documented border hierarchy on every page."""
from __future__ import annotations

import itertools
import re

from hypothesis import strategies as st

from .. import gen
from .. import recipe as R
from ..common import pages_label, run_recipe
from ..engine import Result
from ..expect import attr_at
from ..model import classify

ID = "C07"
LEVEL = "exploration"
RULE = ("Independent random styles (the 15 legal ones and '') for rtf_page.border_first / border_last and rtf_body."
        "border_first / border_last x header mode {default, explicit, multi-row, none} x footnote / source {table, "
        "paragraph, absent} x every placement x 1..many pages x {plain, page_by (1-2 columns), subline_by, subline_by + page_by; grouping columns leading or interleaved with the data columns} x per-cell user "
        "border_top / border_bottom / border_left / border_right matrices that are non-default on rows >= 1; 2-3 "
        "section documents for the first / last clauses; plus an exhaustive product footnote(3) x source(3) x "
        "placement pairs(9) x header(2) x strategy(3) x pages{1,3}. Oracle on the \\clbrdrt / \\clbrdrb styles of the "
        "parsed rows: (a) top of the first table row of the document = page.border_first on every cell (skipped for "
        "page_by without column header); (b) bottom of the last table row of the document (table-rendered source / "
        "footnote if present there, else the last data row) = page.border_last; (c) on every page but the last the "
        "bottom of the last table row = body.border_last, and the top of the first data row of every page = "
        "body.border_first (page.border_first on page 1 without header); (d) every other top / bottom edge of a data "
        "cell = the user's value for its original (row, column). Non-trivial = >=2 pages, or a table-rendered "
        "footnote / source on the last page.")
ASSUMPTIONS = ["row 0 of the user's border_top / border_bottom matrices stays default (the quantifier asks for user borders on interior rows)",
               "body.border_first / border_last are scalars", "'striped' and 'engraved' are the same RTF keyword"]

STYLES = gen.BORDER_STYLES
COORD = re.compile(r"^r(\d+)c(\d+)")
CANON = {"striped": "engraved"}


def canon(s):
    return CANON.get(s, s)


def make(n, nrow, strat, hdr, fn, src, pl, pb_first, pb_last, bb_first, bb_last, ncol=2, user=None, pbh=None, interleave=False):
    body = {}
    gcols = []
    if strat in ("page_by", "subline"):
        tag = "@G0" if strat == "page_by" else "@B0"
        gcols.append({"dtype": "str", "values": [f"{tag}:v{i // 4}" for i in range(n)]})
    elif strat == "page_by2":
        gcols.append({"dtype": "str", "values": [f"@G0:v{i // 6}" for i in range(n)]})
        gcols.append({"dtype": "str", "values": [f"@G1:v{i // 3}" for i in range(n)]})
    elif strat == "subline+page_by":
        gcols.append({"dtype": "str", "values": [f"@B0:v{i // 6}" for i in range(n)]})
        gcols.append({"dtype": "str", "values": [f"@G0:v{i // 3}" for i in range(n)]})
    # column order: grouping columns first, or interleaved with the data columns (g d g d d ...)
    total = len(gcols) + ncol
    if interleave and gcols:
        gpos = [2 * k for k in range(len(gcols)) if 2 * k < total]
        gpos += [p for p in range(total) if p not in gpos][: len(gcols) - len(gpos)]
    else:
        gpos = list(range(len(gcols)))
    cols, gi = [], 0
    for p in range(total):
        if p in gpos:
            c = dict(gcols[gi], name=f"@N{p}")
            gi += 1
        else:
            c = {"name": f"@N{p}", "dtype": "str", "values": [f"r{i}c{p}" for i in range(n)]}
        cols.append(c)
    gnames = [cols[p]["name"] for p in sorted(gpos)]
    if strat in ("page_by", "page_by2"):
        body["page_by"] = gnames
    elif strat == "subline":
        body["subline_by"] = gnames
    elif strat == "subline+page_by":
        body["subline_by"], body["page_by"] = gnames[:1], gnames[1:]
    if bb_first is not None:
        body["border_first"] = bb_first
    if bb_last is not None:
        body["border_last"] = bb_last
    if pbh is not None:
        body["pageby_header"] = pbh
    if user:
        body.update(user)
    sec = {"df": {"cols": cols}, "body": body}
    nd = len(R.displayed_columns(sec))
    sec["headers"] = {"default": "default", "none": "none", "explicit": [{"text": [f"@H0.{c}" for c in range(nd)]}], "nocolheader": "default",
                      "multi": [{"text": ["@H0.0"], "col_rel_width": [1]}, {"text": [f"@H1.{c}" for c in range(nd)]}]}[hdr]
    if hdr == "nocolheader":
        body["as_colheader"] = False      # default header object, but no header row is rendered
    page = {"nrow": nrow}
    if pb_first is not None:
        page["border_first"] = pb_first
    if pb_last is not None:
        page["border_last"] = pb_last
    if pl:
        page["page_footnote"], page["page_source"] = pl
    rec = {"kind": "table", "page": page, "sections": [sec]}
    if fn:
        rec["footnote"] = {"text": ["@F0"], "as_table": fn == "table"}
    if src:
        rec["source"] = {"text": ["@S0"], "as_table": src == "table"}
    return rec


def enumerate_cases(tier):
    tb = (None, "table", "para")
    pls = list(itertools.product(("first", "last", "all"), repeat=2))
    k = 0
    for fn, src, pl, hdr, strat, n in itertools.product(tb, tb, pls, ("explicit", "none"), ("plain", "page_by", "subline"), (3, 11)):
        k += 1
        if tier == "quick" and k % 3:
            continue
        yield make(n, 6, strat, hdr, fn, src, pl, "thick", "dashed", "dotted", "wavy")


@st.composite
def _case(draw):
    style = st.sampled_from(STYLES)
    opt = lambda: draw(st.one_of(st.none(), style))
    strat = draw(st.sampled_from(["plain", "plain", "page_by", "subline", "page_by2", "subline+page_by"]))
    n = draw(st.integers(1, 24))
    ncol = draw(st.integers(1, 3))
    nrow = draw(st.integers(2, 10))
    user = {}
    if draw(st.booleans()):
        off = {"plain": 0, "page_by": 1, "subline": 1}.get(strat, 2)
        for name in ("border_top", "border_bottom"):
            if draw(st.booleans()):
                # matrices indexed by ORIGINAL column; row 0 keeps the default ''
                # full-height matrix, or a short pattern (2-4 rows) recycled down the table; row 0 stays default
                k = max(n - 1, 1) if draw(st.booleans()) else draw(st.integers(1, 3))
                user[name] = [[""] * (ncol + off)] + [[draw(style) for _ in range(ncol + off)] for _ in range(k)]
        for name in ("border_left", "border_right"):
            if draw(st.integers(0, 9)) < 3:
                user[name] = [draw(style) for _ in range(ncol + off)]
    rec = make(n, nrow, strat, draw(st.sampled_from(["default", "explicit", "multi", "none", "nocolheader"])), draw(st.sampled_from([None, "table", "para"])),
               draw(st.sampled_from([None, "table", "para"])),
               (draw(st.sampled_from(["first", "last", "all"])), draw(st.sampled_from(["first", "last", "all"]))) if draw(st.booleans()) else None,
               opt(), opt(), opt(), opt(), ncol=ncol, user=user, pbh=draw(st.sampled_from([None, None, True, False])),
               interleave=draw(st.booleans()))
    if draw(st.integers(0, 9)) < 2:
        # multi-section variant: first / last clauses only
        secs = [rec["sections"][0]]
        for si in range(1, draw(st.integers(2, 3))):
            m = draw(st.integers(1, 4))
            cols = [{"name": f"@N{si}x{j}", "dtype": "str", "values": [f"r{i}c{j}" for i in range(m)]} for j in range(draw(st.integers(1, 3)))]
            secs.append({"df": {"cols": cols}, "body": {}, "headers": draw(st.sampled_from(["default", "none"]))})
        first = secs[0]
        first["body"] = {k: v for k, v in first["body"].items() if k not in ("page_by", "subline_by")}
        for c in first["df"]["cols"]:
            c["name"] = c["name"].replace("@N", "@N0x")
        if isinstance(first["headers"], list):
            first["headers"] = "default"
        rec["sections"] = secs
        rec["kind"] = "multi"
        rec["header_layout"] = "nested"
        rec["page"]["nrow"] = 60
    return rec


def strategy(tier):
    return _case()


def budget(tier):
    return 400 if tier == "quick" else 4000


def edge(cells, side):
    return [canon((c.borders.get(side) or {}).get("style", "<none>")) for c in cells]


def check(case) -> Result:
    res = Result()
    out = run_recipe(case)
    if out.build_error:
        res.harness_error = "recipe does not build: " + out.build_error
        return res
    if out.encode_error:
        res.excluded = "encode_raised:" + out.encode_error[0]
        return res
    if not out.doc.ok():
        res.excluded = "malformed_output"
        return res
    page = case.get("page") or {}
    pfirst, plast = canon(page.get("border_first", "double")), canon(page.get("border_last", "double"))
    multi = case["kind"] == "multi"
    if multi and any(R.nrows(sec) == 0 and sec.get("headers") == "none" for sec in case["sections"]):
        # a section that renders nothing at all is outside the quantifier ("documents" of 1..many pages);
        # which neighbour should then carry the page border is not specified
        res.excluded = "section_renders_nothing"
        return res
    sec0 = case["sections"][0]
    body = sec0.get("body", {})
    bfirst, blast = canon(body.get("border_first", "single")), canon(body.get("border_last", "single"))
    pages = classify(out.doc)
    table_roles = ("header", "heading", "data", "fnrow", "srcrow")
    rows_by_page = [[it for it in items if it.role in table_roles] for items in pages]
    all_rows = [it for r in rows_by_page for it in r]
    if not all_rows:
        res.excluded = "no_table_rows"
        return res
    has_header = any(it.role == "header" for it in rows_by_page[0])
    spanning = R.spanning(body)
    np_ = len(pages)
    fn_kind = "none" if not case.get("footnote") else ("table" if case["footnote"].get("as_table", True) else "para")
    src_kind = "none" if not case.get("source") else ("table" if case["source"].get("as_table", False) else "para")

    def all_eq(vals, want):
        return all(v == want for v in vals)

    # (a) top of the first table row of the document
    first = all_rows[0]
    res.checks += 1
    if not (spanning and not has_header):
        got = edge(first.block.cells, "t")
        if not all_eq(got, pfirst):
            res.fail("document_top", f"{'header' if has_header else 'no_header'}/{'multi' if multi else 'single'}" + ("/empty_style" if pfirst == "" else ""),
                     f"first table row ({first.role}) top {got} expected page.border_first {pfirst!r}")
    # (b) bottom of the last table row of the document
    last = all_rows[-1] if rows_by_page[-1] else None
    if last is not None and last is rows_by_page[-1][-1]:
        res.checks += 1
        got = edge(last.block.cells, "b")
        if not all_eq(got, plast):
            res.fail("document_bottom", f"last_row={last.role}/fn={fn_kind}/src={src_kind}/{'one_page' if np_ == 1 else 'multi_page'}/{'multi' if multi else 'single'}"
                     + ("/empty_style" if plast == "" else ""), f"last table row ({last.role}) bottom {got} expected page.border_last {plast!r}; "
                     f"placements {page.get('page_footnote', 'last')}/{page.get('page_source', 'last')}")
    if multi:
        res.labels = ["multi_section", pages_label(np_)]
        res.nontrivial = True
        return res
    # (c) page boundaries
    names = [c["name"] for c in sec0["df"]["cols"]]
    n = R.nrows(sec0)
    for pn, rows in enumerate(rows_by_page):
        data = [it for it in rows if it.role == "data"]
        if not rows or not data:
            continue
        if pn < np_ - 1:
            res.checks += 1
            lastrow = rows[-1]
            got = edge(lastrow.block.cells, "b")
            if not all_eq(got, blast):
                para_after = [it.role for it in pages[pn] if it.role in ("fnpara", "srcpara")]
                res.fail("break_bottom", f"last_row={lastrow.role}/" + ("paragraph_component_on_page" if para_after else "no_paragraph_component")
                         + ("/empty_style" if blast == "" else ""), f"page {pn + 1}/{np_}: last table row ({lastrow.role}) bottom {got} expected body.border_last {blast!r}")
        res.checks += 1
        want_top = pfirst if (pn == 0 and not has_header) else bfirst
        if not (pn == 0 and not has_header and spanning):
            got = edge(data[0].block.cells, "t")
            if not all_eq(got, want_top):
                res.fail("page_first_data_row_top", ("first_page" if pn == 0 else "later_page") + ("/no_header" if not has_header else "")
                         + ("/empty_style" if want_top == "" else ""), f"page {pn + 1}: first data row top {got} expected {want_top!r}")
        # (d) interior horizontal edges
        for pos, it in enumerate(data):
            is_last_table_row = it is rows[-1]
            for cell in it.block.cells:
                m = COORD.match(cell.text)
                if not m:
                    continue
                i, j = int(m.group(1)), int(m.group(2))
                res.checks += 4
                for side, name in (("l", "border_left"), ("r", "border_right")):
                    if side == "r" and cell is not it.block.cells[-1]:
                        continue      # r2rtf convention: a cell's right edge is the left edge of its neighbour; only the last cell writes \\clbrdrr
                    want = canon(attr_at(body.get(name), i, j, "single"))
                    g = canon((cell.borders.get(side) or {}).get("style", "<none>"))
                    if g != want:
                        res.fail("interior", {"l": "left", "r": "right"}[side], f"page {pn + 1} cell r{i}c{j}: {name} {g!r} expected user's {want!r}")
                if pos > 0:
                    want = canon(attr_at(body.get("border_top"), i, j, ""))
                    g = canon((cell.borders.get("t") or {}).get("style", "<none>"))
                    if g != want:
                        res.fail("interior", "top", f"page {pn + 1} cell r{i}c{j}: top {g!r} expected user's {want!r}")
                if not is_last_table_row:
                    want = canon(attr_at(body.get("border_bottom"), i, j, ""))
                    g = canon((cell.borders.get("b") or {}).get("style", "<none>"))
                    if g != want:
                        res.fail("interior", "bottom" + ("/before_component" if pos == len(data) - 1 else ""), f"page {pn + 1} cell r{i}c{j}: bottom {g!r} expected user's {want!r}")
    table_comp_last = bool(rows_by_page[-1]) and rows_by_page[-1][-1].role in ("fnrow", "srcrow")
    res.labels = [pages_label(np_), "fn=" + fn_kind, "src=" + src_kind, "header" if has_header else "no_header",
                  "strategy=" + ("subline+page_by" if (body.get("page_by") and body.get("subline_by")) else ("page_by2" if len(body["page_by"]) > 1 else "page_by") if body.get("page_by") else "subline" if body.get("subline_by") else "plain"),
                  "user_borders" if ("border_top" in body or "border_bottom" in body) else "default_borders"]
    res.nontrivial = np_ >= 2 or table_comp_last
    # de-duplicate
    seen, uniq = set(), []
    for f in res.failures:
        if f.key not in seen:
            seen.add(f.key)
            uniq.append(f)
    res.failures = uniq
    return res
