"""C20 - get_string_width is consistent (algebraic / metamorphic relations)."""
from __future__ import annotations

from hypothesis import strategies as st

from .. import refdata
from ..engine import Result

ID = "C20"
LEVEL = "exploration"
RULE = ("Cases (text over printable ASCII + Latin-1 + Greek, 0-40 chars; appended char; font 1-10; two sizes in "
        "4..48 incl. fractional; dpi 36..600; an unsupported font number / name / unit) from Hypothesis, plus "
        "an exhaustive sweep of every single character U+0020-U+00FF and U+0370-U+03FF x 10 fonts. Oracle: "
        "w('')==0, w>=0, px==in*dpi and mm==in*25.4 (1e-9 rel), number==name exactly, appending never decreases "
        "(1e-9), size scaling within 1 %, font 9: w==len*w('M') (1e-9 rel), unsupported -> ValueError. "
        "Non-trivial = non-empty text with a non-ASCII character or a fractional size or a non-default dpi.")
ASSUMPTIONS = ["1e-9 relative tolerance = float round-off of one multiplication; 1 % is from the statement",
               "the reference font-number -> name map is the frozen copy in data/font_table.json"]

# printable Latin-1: U+00A0 (no-break space) and U+00AD (soft hyphen, a zero-width format character) are not
# printable characters (str.isprintable() is False) and are outside the quantifier's "printable" domain
LATIN1 = "".join(chr(c) for c in range(0xA0, 0x100) if chr(c).isprintable())
GREEK = "".join(chr(c) for c in list(range(0x391, 0x3A2)) + list(range(0x3A3, 0x3AA)) + list(range(0x3B1, 0x3CA)))
ASCII = "".join(chr(c) for c in range(0x20, 0x7F))
ALPHA = ASCII + LATIN1 + GREEK


# strings that look like markup to other parts of the library (LaTeX-style commands, super/subscript and comparison
# shorthands, page fields, braces): for the width function they are plain characters
TOKENS = ["\\pm", "\\alpha", "\\beta", "\\leq", "\\geq", "\\mu", "\\infty", "\\Delta", "\\mathbb{R}", "\\pagenumber", "\\totalpage", "\\pagefield",
          "\\times", "\\sigma", "\\le", "\\pi", "^2", "_i", ">=", "<=", "{", "}", "\\", "\\line", "\\par", "\\u8804?", "\\'e9", "&amp;", "%s", "\\n"]


def strategy(tier):
    size = st.one_of(st.integers(4, 48), st.integers(8, 96).map(lambda x: x / 2),
                     st.floats(4, 48, allow_nan=False).map(lambda x: round(x, 3)))
    marked = st.lists(st.one_of(st.sampled_from(TOKENS), st.sampled_from(TOKENS), st.text(alphabet=ASCII, max_size=4)), min_size=1, max_size=5).map("".join)
    text = st.one_of(st.text(alphabet=ALPHA, max_size=40), st.text(alphabet=ASCII, max_size=40),
                     st.text(alphabet=LATIN1 + "ab ", max_size=12), marked)
    return st.fixed_dictionaries({
        "text": text,
        "c": st.sampled_from(ALPHA),
        "font": st.integers(1, 10),
        "size": size,
        "size2": size,
        "dpi": st.one_of(st.just(72.0), st.integers(36, 600).map(float), st.floats(36, 600).map(lambda x: round(x, 2))),
        "bad_font": st.one_of(st.integers(-5, 0), st.integers(11, 40), st.sampled_from([1.0, 4.0, 9.0, 10.0, 2.5, 0.5])),   # also float "numbers"
        "bad_name": st.sampled_from(["Times", "arial", "Comic Sans", "", "Courier", "Times New Roman "]),
        "bad_unit": st.sampled_from(["cm", "pt", "IN", "", "inch", "twip"]),
        # history: another font is measured, then one measurement of THIS font / size fails because the font file cannot be
        # opened once (OSError); the relations must hold for everything measured afterwards
        "prior_fault": st.one_of(st.none(), st.none(), st.none(), st.none(), st.none(), st.none(), st.none(),
                                 st.fixed_dictionaries({"font": st.integers(1, 10), "size": st.sampled_from([6, 9, 12, 30])})),
    })


def budget(tier):
    return 2000 if tier == "quick" else 40000


def enumerate_cases(tier):
    chars = list(ASCII + LATIN1)
    if tier == "thorough":
        chars += list(GREEK)
    for font in range(1, 11):
        for ch in chars:
            yield {"text": ch, "c": "M", "font": font, "size": 9, "size2": 12.5, "dpi": 96.0,
                   "bad_font": 11, "bad_name": "x", "bad_unit": "cm"}
    # every markup-like token completed by its last character (appending it must not shrink the text), alone, after a
    # word and before a word, in a proportional and in the monospaced font
    for font in range(1, 11):
        for other in (1, 4, 9):
            if other != font:
                yield {"text": "Subject 1001-ab", "c": "M", "font": font, "size": 10, "size2": 20, "dpi": 96.0,
                       "bad_font": 11, "bad_name": "x", "bad_unit": "cm", "prior_fault": {"font": other, "size": 12}}
    for tok in TOKENS:
        for font in (1, 4, 9):
            for pre, post in (("", ""), ("Mean ", ""), ("n ", " x")):
                yield {"text": pre + tok[:-1], "c": tok[-1], "font": font, "size": 10, "size2": 20, "dpi": 72.0,
                       "bad_font": 0, "bad_name": "x", "bad_unit": "pt"}
                yield {"text": pre + tok + post, "c": " ", "font": font, "size": 10, "size2": 20, "dpi": 72.0,
                       "bad_font": 0, "bad_name": "x", "bad_unit": "pt"}


def rel(a, b, tol=1e-9):
    return abs(a - b) <= tol * max(1.0, abs(a), abs(b))


def failed_measurement(w, prior, s, font, a):
    from PIL import ImageFont
    w("Mq", font=prior["font"], font_size=prior["size"])
    real = ImageFont.truetype

    def failing(*args, **kw):
        raise OSError(24, "Too many open files")

    ImageFont.truetype = failing
    try:
        w(s or "x", font=font, font_size=a)
    except Exception:  # noqa: BLE001 - the failed call's own outcome is not judged
        pass
    finally:
        ImageFont.truetype = real


def check(case) -> Result:
    from rtflite.strwidth import get_string_width as w

    res = Result()
    s, c, font, a, b, dpi = case["text"], case["c"], case["font"], case["size"], case["size2"], case["dpi"]
    name = refdata.font_name(font)
    if case.get("prior_fault"):
        failed_measurement(w, case["prior_fault"], s, font, a)
    try:
        w_in = w(s, font=font, font_size=a, unit="in", dpi=dpi)
        w_in72 = w(s, font=font, font_size=a, unit="in")
        w_px = w(s, font=font, font_size=a, unit="px", dpi=dpi)
        w_mm = w(s, font=font, font_size=a, unit="mm", dpi=dpi)
        w_name = w(s, font=name, font_size=a, unit="in", dpi=dpi)
        w_more = w(s + c, font=font, font_size=a, unit="in", dpi=dpi)
        w_b = w(s, font=font, font_size=b, unit="in", dpi=dpi)
        w_empty = [w("", font=font, font_size=a, unit=u, dpi=dpi) for u in ("in", "mm", "px")]
    except Exception as e:
        res.fail("raises", f"{type(e).__name__}", f"{e} on {case!r}")
        return res
    res.checks = 12
    if any(x != 0 for x in w_empty):
        res.fail("empty", "nonzero", f"{w_empty}")
    if min(w_in, w_px, w_mm, w_more, w_b) < 0:
        res.fail("sign", "negative", f"{w_in, w_px, w_mm}")
    if not rel(w_in * dpi, w_px):
        res.fail("units", "px_vs_in", f"in={w_in} dpi={dpi} px={w_px}")
    if not rel(w_in * 25.4, w_mm):
        res.fail("units", "mm_vs_in", f"in={w_in} mm={w_mm}")
    if not rel(w_in72 * 72.0, w_px):
        res.fail("units", "default_dpi", f"in@72={w_in72} px={w_px}")
    if w_name != w_in:
        res.fail("font_alias", f"font{font}", f"number={w_in} name={w_name}")
    if w_more < w_in - 1e-9:
        res.fail("monotone", "append_decreases", f"{s!r}+{c!r}: {w_in} -> {w_more}")
    if w_in > 0 and w_b > 0:
        ratio = (w_in / a) / (w_b / b)
        if abs(ratio - 1) > 0.01:
            res.fail("scaling", "over_1pct", f"sizes {a},{b} ratio {ratio}")
    if font == 9:
        adv = w("M", font=9, font_size=a, unit="in", dpi=dpi)
        if not rel(w_in, len(s) * adv):
            res.fail("monospace", "not_count_times_advance", f"{s!r}: {w_in} vs {len(s)}*{adv}")
    for kw, sig in (({"font": case["bad_font"]}, "bad_font_number"), ({"font": case["bad_name"]}, "bad_font_name"),
                    ({"unit": case["bad_unit"]}, "bad_unit")):
        args = dict(font=font, font_size=a, unit="in", dpi=dpi)
        args.update(kw)
        for txt in (s, "x", ""):        # unsupported font / unit must be refused for ANY text, the empty string included
            try:
                w(txt, **args)
                res.fail("rejects", sig + ("/empty_text" if txt == "" else ""), f"no exception for {kw} with text {txt!r}")
            except ValueError:
                pass
            except Exception as e:
                res.fail("rejects", sig + ":" + type(e).__name__, str(e)[:100])
    nonascii = any(ord(ch) > 127 for ch in s)
    res.labels = ["history=" + ("after_failed_measurement" if case.get("prior_fault") else "none"), f"font={font}", "nonascii" if nonascii else "ascii", "frac_size" if a != int(a) else "int_size",
                  "dpi72" if dpi == 72.0 else "dpi_other", "empty" if not s else "nonempty"]
    res.nontrivial = bool(s) and (nonascii or a != int(a) or dpi != 72.0)
    return res


def reductions(case):
    t = case["text"]
    if len(t) > 1:
        for cut in (t[: len(t) // 2], t[len(t) // 2:], t[1:], t[:-1]):
            yield dict(case, text=cut)
    if case["dpi"] != 72.0:
        yield dict(case, dpi=72.0)
    for key in ("size", "size2"):
        if case[key] != int(case[key]):
            yield dict(case, **{key: float(int(case[key]))})
