"""C18 - exports are all-or-nothing and leave no debris (fault injection at library call boundaries)."""
from __future__ import annotations

import contextlib
import functools
import hashlib
import io
import os
import shutil
import tempfile
from pathlib import Path

from hypothesis import strategies as st

from .. import recipe as R
from ..engine import Result
from ..faults import InjectedFault, run_with_fault, trace_calls
from ..rtfread import read

ID = "C18"
LEVEL = "fault_enumeration"
RULE = ("Export in {write_rtf, write_docx, write_html, write_pdf} x document from a pool of 4 (plain table, paginated "
        "coloured table, multi-section, figure) x fault point: none, or an exception raised on entry of the k-th call "
        "into any rtflite function during the export (quick: every distinct call site at its first, last and middle "
        "instance; thorough: EVERY call instance) x converter stub behaviour {writes file and returns Path; raises "
        "before writing; writes then raises; returns list / None / str; returns a Path that does not exist; writes "
        "an HTML file plus a <name>_files folder; and the library's own LibreOfficeConverter on a fake soffice executable that "
        "succeeds / exits 3 / exits 0 without output / writes HTML plus resources} x target state {absent; present with known bytes; inside a missing "
        "directory tree; (html) resource folder already present} x target names with and without the usual suffix; "
        "Hypothesis draws further combinations; in a fifth of them (and an enumerated block) the same document object was "
        "exported before and then changed in place (title text / orientation): the file / the converter's input must be "
        "what rtf_encode() returns now. Oracle: file-system snapshots (names + sha256) of the target's "
        "directory and of a private TMPDIR before/after: on an exception the target is byte-identical (or still "
        "absent), nothing else appeared beside it, TMPDIR is empty; on success write_rtf's file equals the string "
        "that very rtf_encode() call returned and parses cleanly, the converter's bytes are at the target, the "
        "HTML resource folder is at <target dir>/<converter file name>_files with exactly the stub's content (not "
        "nested in an older one), nothing else appeared, TMPDIR is empty. Non-trivial = the fault fired after the "
        "first and before the last library call, or a converter misbehaviour / non-absent target state.")
ASSUMPTIONS = ["faults are injected at rtflite function-call boundaries (sys.settrace 'call' events); faults inside polars / pydantic / "
               "the OS are out of reach", "newly created parent directories are not debris (creating them is documented behaviour)",
               "LibreOffice is replaced by a stub object passed as converter="]

_PNG = (b"\x89PNG\r\n\x1a\n" + (13).to_bytes(4, "big") + b"IHDR" + (5).to_bytes(4, "big") + (7).to_bytes(4, "big")
        + b"\x08\x02\x00\x00\x00" + bytes(8)).hex()
DOCS = [
    {"kind": "table", "sections": [{"df": {"cols": [{"name": "@N0", "dtype": "str", "values": ["a", "b"]}, {"name": "@N1", "dtype": "int", "values": [1, 2]}]},
                                    "body": {}, "headers": "default"}], "title": {"text": ["@T0"]}},
    {"kind": "table", "page": {"nrow": 4}, "sections": [{"df": {"cols": [{"name": "@N0", "dtype": "str", "values": ["@G0:v0"] * 3 + ["@G0:v1"] * 2},
                                                                      {"name": "@N1", "dtype": "str", "values": [f"r{i}" for i in range(5)]}]},
                                                        "body": {"page_by": ["@N0"], "text_color": "red"}, "headers": "default"}], "footnote": {"text": ["@F0"]}},
    {"kind": "multi", "header_layout": "nested", "sections": [{"df": {"cols": [{"name": "@N0x0", "dtype": "str", "values": ["a"]}]}, "body": {}, "headers": "default"},
                                                              {"df": {"cols": [{"name": "@N1x0", "dtype": "str", "values": ["b"]}]}, "body": {"text_color": "blue"}, "headers": "none"}]},
    {"kind": "figure", "figure": {"files": [{"suffix": ".png", "stem": "f0", "hex": _PNG}]}, "title": {"text": ["@T0"]}},
]
EXPORTS = ("write_rtf", "write_docx", "write_html", "write_pdf")
FMT = {"write_docx": "docx", "write_html": "html", "write_pdf": "pdf"}
STUBS = ("ok", "raise_before", "write_then_raise", "returns_list", "returns_none", "returns_str", "missing_path", "html_with_files", "files_but_no_page",
         # the library's own LibreOfficeConverter driven by a fake soffice executable (covers convert.py):
         "real_ok", "real_exit3", "real_silent", "real_html_files", "real_write_then_exit3", "real_empty", "ok_empty")
REAL_PAYLOAD = b"CONVERTED-BY-FAKE-SOFFICE"
FAKE_SOFFICE = r"""#!/bin/sh
MODE=$(cat "$(dirname "$0")/mode")
if [ "$1" = "--version" ]; then echo "LibreOffice 7.6.4.1 60(Build:1)"; exit 0; fi
FMT=pdf; OUT=.; IN=
while [ $# -gt 0 ]; do
  case "$1" in
    --convert-to) FMT=$2; shift 2;;
    --outdir) OUT=$2; shift 2;;
    -*) shift;;
    *) IN=$1; shift;;
  esac
done
STEM=$(basename "$IN" .rtf)
case "$MODE" in
  real_ok) printf 'CONVERTED-BY-FAKE-SOFFICE' > "$OUT/$STEM.$FMT";;
  real_exit3) echo "soffice: conversion failed" >&2; exit 3;;
  real_silent) exit 0;;
  real_write_then_exit3) printf 'TRUNCATED' > "$OUT/$STEM.$FMT"; echo "soffice: crashed while writing" >&2; exit 3;;
  real_empty) : > "$OUT/$STEM.$FMT";;
  real_html_files) printf 'CONVERTED-BY-FAKE-SOFFICE' > "$OUT/$STEM.$FMT"; mkdir "$OUT/$STEM.${FMT}_files"; printf IMG0 > "$OUT/$STEM.${FMT}_files/img0.png";;
esac
exit 0
"""


def make_converter(behaviour, base):
    """A converter object for this case: an object-level stub, or the real LibreOfficeConverter on a fake executable."""
    if not behaviour.startswith("real_"):
        return Stub(behaviour)
    from rtflite.convert import LibreOfficeConverter

    bindir = os.path.join(base, "bin")
    os.makedirs(bindir, exist_ok=True)
    exe = os.path.join(bindir, "soffice")
    with open(exe, "w") as f:
        f.write(FAKE_SOFFICE)
    os.chmod(exe, 0o755)
    with open(os.path.join(bindir, "mode"), "w") as f:
        f.write(behaviour)
    return LibreOfficeConverter(executable_path=exe)
TARGETS = ("absent", "present", "missing_dirs", "resdir_present", "present_long", "present_binary", "present_crlf_copy")
NAMES = {"write_rtf": ["out.rtf", "noext"], "write_docx": ["out.docx", "report"], "write_html": ["rep.html", "page.htm", "noext"],
         "write_pdf": ["out.pdf", "a.b.pdf"]}
PAYLOAD = b"CONVERTED-BYTES-\x00\x01\xff"


class Stub:
    def __init__(self, behaviour):
        self.behaviour = behaviour
        self.written = None
        self.files_dir = None
        self.input_bytes = None

    def convert(self, input_files, output_dir, format="pdf", overwrite=False):
        b = self.behaviour
        if b == "raise_before":
            raise RuntimeError("stub: conversion failed before producing output")
        inp = Path(input_files)
        try:
            self.input_bytes = inp.read_bytes()
        except OSError:
            self.input_bytes = None
        out = Path(output_dir) / f"{inp.stem}.{format}"
        if b == "ok_empty":
            out.write_bytes(b"")            # a converter that reports success with a zero-byte output
            self.written = out
        elif b not in ("missing_path", "files_but_no_page"):
            out.write_bytes(PAYLOAD + format.encode())
            self.written = out
        if b in ("html_with_files", "files_but_no_page"):
            fd = out.with_name(out.name + "_files")
            fd.mkdir()
            (fd / "img0.png").write_bytes(b"IMG0")
            self.files_dir = fd
        if b == "write_then_raise":
            raise RuntimeError("stub: conversion failed after producing output")
        if b == "returns_list":
            return [out]
        if b == "returns_none":
            return None
        if b == "returns_str":
            return str(out)
        return out


def snapshot(root):
    out = {}
    root = str(root)
    if not os.path.isdir(root):
        return out
    for dp, dn, fn in os.walk(root):
        rel = os.path.relpath(dp, root)
        for d in dn:
            out[os.path.normpath(os.path.join(rel, d)) + "/"] = "dir"
        for f in fn:
            p = os.path.join(dp, f)
            with open(p, "rb") as fh:
                out[os.path.normpath(os.path.join(rel, f))] = hashlib.sha256(fh.read()).hexdigest()
    return out


def setup_case(case):
    base = os.path.join(os.environ.get("VERIF_WORK") or tempfile.gettempdir(), f"c18_{os.getpid()}")
    shutil.rmtree(base, ignore_errors=True)
    tmp = os.path.join(base, "tmp")
    area = os.path.join(base, "area")
    os.makedirs(tmp)
    os.makedirs(area)
    name = case["name"]
    state = case["target"]
    if state == "missing_dirs":
        target = os.path.join(area, "new", "deeper", name)
    else:
        target = os.path.join(area, name)
    if state in ("present", "resdir_present", "present_long"):
        with open(target, "wb") as f:
            f.write(b"OLD TARGET CONTENT" * (20000 if state == "present_long" else 1))      # longer than any new export
    if state in ("present_binary", "present_crlf_copy"):
        with open(target, "wb") as f:          # (present_crlf_copy is overwritten in check() once the document exists)
            f.write(b"\xff\xfe\x00OLD \x80\x81 BINARY \xc3\x28 CONTENT\r\n")
    if state == "resdir_present":
        # what an earlier successful write_html to the same target left behind
        stem = Path(name).stem
        rd = os.path.join(area, f"{stem}.html_files")
        os.makedirs(rd)
        with open(os.path.join(rd, "old.png"), "wb") as f:
            f.write(b"OLD RESOURCE")
    return base, tmp, area, target


@functools.lru_cache(None)
def call_profile(export, doc_idx, stub=None):
    """List of call sites (file:function) entered during a fault-free export with the 'ok' / 'html_with_files' stub."""
    case = {"export": export, "doc": doc_idx, "fault": None, "stub": stub or ("html_with_files" if export == "write_html" else "ok"),
            "target": "absent", "name": NAMES[export][0]}
    base, tmp, area, target = setup_case(case)
    os.makedirs(os.path.join(base, "fig"), exist_ok=True)
    doc = R.build(DOCS[doc_idx], workdir=os.path.join(base, "fig")).doc
    old = tempfile.tempdir
    tempfile.tempdir = tmp
    try:
        with contextlib.redirect_stdout(io.StringIO()):
            conv = make_converter(case["stub"], base)
            _, calls = trace_calls(lambda: invoke(doc, export, target, conv))
    finally:
        tempfile.tempdir = old
    return tuple(calls)


def invoke(doc, export, target, stub):
    if export == "write_rtf":
        return doc.write_rtf(target)
    return getattr(doc, export)(target, converter=stub)


def enumerate_cases(tier):
    for export in EXPORTS:
        for di in range(len(DOCS)):
            calls = call_profile(export, di)
            n = len(calls)
            if tier == "thorough" and di in (0, 3):
                ks = range(1, n + 1)
            else:
                sites = {}
                for k, c in enumerate(calls, 1):
                    sites.setdefault(c, []).append(k)
                ks = sorted({x for v in sites.values() for x in (v[0], v[-1], v[len(v) // 2])})
            stub = "html_with_files" if export == "write_html" else "ok"
            if export != "write_rtf" and di == 0:
                # the same export through the library's own converter class: its call sites are fault points too
                rstub = "real_html_files" if export == "write_html" else "real_ok"
                rn = len(call_profile(export, di, rstub))
                for k in (range(1, rn + 1) if tier == "thorough" else sorted({1, 2, 3, rn // 2, rn - 8, rn - 6, rn - 4, rn - 3, rn - 2, rn - 1, rn})):
                    if k >= 1:
                        yield {"export": export, "doc": di, "fault": k, "stub": rstub, "target": ("present", "absent")[k % 2], "name": NAMES[export][0]}
            for k in ks:
                yield {"export": export, "doc": di, "fault": k, "stub": stub, "target": ("present", "absent", "resdir_present" if export == "write_html" else "missing_dirs")[k % 3],
                       "name": NAMES[export][k % len(NAMES[export])]}
    # converter behaviour x target state x name, no injected fault
    for export in EXPORTS[1:]:
        for stub in STUBS:
            for tgt in TARGETS:
                if tgt == "resdir_present" and export != "write_html":
                    continue
                for name in NAMES[export]:
                    yield {"export": export, "doc": 0, "fault": None, "stub": stub, "target": tgt, "name": name}
    for tgt in ("absent", "present", "missing_dirs", "present_long", "present_binary", "present_crlf_copy"):
        for di in range(len(DOCS)):
            for name in NAMES["write_rtf"]:
                yield {"export": "write_rtf", "doc": di, "fault": None, "stub": "ok", "target": tgt, "name": name}
    # "~/..." targets given as str and as pathlib.Path (HOME points into the observed area)
    for export in EXPORTS:
        for tilde in ("str", "path"):
            for tgt in ("absent", "missing_dirs"):
                yield {"export": export, "doc": 0, "fault": None, "stub": "html_with_files" if export == "write_html" else "ok", "target": tgt,
                       "name": NAMES[export][0], "tilde": tilde}
    # the same document exported before, changed in place (title text / orientation), exported again
    for export in EXPORTS:
        for di in range(len(DOCS)):
            for first in ("rtf", "docx"):
                yield {"export": export, "doc": di, "fault": None, "stub": "ok", "target": "absent", "name": NAMES[export][0], "rewrite": first}


@st.composite
def _case(draw):
    export = draw(st.sampled_from(EXPORTS))
    di = draw(st.integers(0, len(DOCS) - 1))
    n = len(call_profile(export, di))
    fault = draw(st.one_of(st.none(), st.integers(1, n), st.integers(1, n)))
    stub = draw(st.sampled_from(STUBS)) if export != "write_rtf" else "ok"
    tgt = draw(st.sampled_from(TARGETS if export == "write_html" else TARGETS[:3] + TARGETS[4:]))
    case = {"export": export, "doc": di, "fault": fault, "stub": stub, "target": tgt, "name": draw(st.sampled_from(NAMES[export]))}
    if draw(st.integers(0, 9)) < 2:
        case["tilde"] = draw(st.sampled_from(["str", "path"]))
    if draw(st.integers(0, 9)) < 2:
        case["rewrite"] = draw(st.sampled_from(["rtf", "docx"]))
    return case


def strategy(tier):
    return _case()


def budget(tier):
    return 150 if tier == "quick" else 2500


def check(case) -> Result:
    res = Result()
    export, di = case["export"], case["doc"]
    base, tmp, area, target = setup_case(case)
    try:
        os.makedirs(os.path.join(base, "fig"), exist_ok=True)
        doc = R.build(DOCS[di], workdir=os.path.join(base, "fig")).doc
    except Exception as e:
        res.harness_error = f"document {di} does not build: {e}"
        return res
    try:
        stub = make_converter(case["stub"], base)
    except Exception as e:
        res.harness_error = f"converter set-up failed: {type(e).__name__}: {e}"
        return res
    if case["target"] == "present_crlf_copy":
        # the target already holds this very document as saved by a tool that writes CRLF line ends
        try:
            with open(target, "wb") as f:
                f.write(doc.rtf_encode().replace("\n", "\r\n").encode("utf-8"))
        except Exception as e:
            res.harness_error = f"document {di} does not encode: {e}"
            return res
    home_before = os.environ.get("HOME")
    target_arg = target
    if case.get("tilde"):
        # the caller names the target relative to the home directory, as a str or as a pathlib.Path
        os.environ["HOME"] = area
        rel_home = "~/" + os.path.relpath(target, area)
        target_arg = Path(rel_home) if case["tilde"] == "path" else rel_home
    if case.get("rewrite"):
        # history: the same document object was exported before (elsewhere), then changed in place
        try:
            prior_dir = os.path.join(base, "prior")
            os.makedirs(prior_dir)
            with contextlib.redirect_stdout(io.StringIO()):
                if case["rewrite"] == "rtf":
                    doc.write_rtf(os.path.join(prior_dir, "first.rtf"))
                else:
                    doc.write_docx(os.path.join(prior_dir, "first.docx"), converter=Stub("ok"))
            if doc.rtf_title is not None:
                doc.rtf_title.text = ["@T0 (revised)"]
            else:
                doc.rtf_page.orientation = "landscape"
        except Exception as e:
            res.harness_error = f"prior export failed: {type(e).__name__}: {e}"
            return res
    before_area = snapshot(area)
    captured = []
    orig_encode = type(doc).rtf_encode

    def spy(self_):
        s = orig_encode(self_)
        captured.append(s)
        return s

    old_tmp = tempfile.tempdir
    tempfile.tempdir = tmp
    type(doc).rtf_encode = spy
    try:
        with contextlib.redirect_stdout(io.StringIO()):
            outcome, fired, ncalls = run_with_fault(lambda: invoke(doc, export, target_arg, stub), case["fault"])
    finally:
        type(doc).rtf_encode = orig_encode
        tempfile.tempdir = old_tmp
        if case.get("tilde"):
            if home_before is None:
                os.environ.pop("HOME", None)
            else:
                os.environ["HOME"] = home_before
    after_area = snapshot(area)
    after_tmp = snapshot(tmp)
    rel_target = os.path.relpath(target, area)
    tag = f"{export}/{case['stub']}/{case['target']}"
    res.checks += 4
    if after_tmp:
        res.fail("temp_debris", f"{export}/{'raised' if outcome[0] == 'exc' else 'returned'}", f"left in TMPDIR: {sorted(after_tmp)[:4]}")
    new_entries = {k for k in after_area if k not in before_area}
    changed = {k for k in before_area if after_area.get(k) != before_area[k]}
    parent_dirs = set()
    p = os.path.dirname(rel_target)
    while p and p != ".":
        parent_dirs.add(os.path.normpath(p) + "/")
        p = os.path.dirname(p)
    if outcome[0] == "exc":
        exc = outcome[1]
        if not isinstance(exc, Exception):
            res.harness_error = f"non-Exception raised: {exc!r}"
            return res
        if case["fault"] is None and case["stub"] in ("ok", "html_with_files", "real_ok", "real_html_files"):
            # nothing was injected and the converter did its job: the export has to succeed (missing parent directories
            # of any depth are created)
            res.fail("export_fails_without_fault", tag, f"{type(exc).__name__}: {str(exc)[:160]}")
        if changed:
            res.fail("failed_export_modified_existing", tag, f"{type(exc).__name__}: changed {sorted(changed)[:3]}")
        extra = new_entries - parent_dirs
        if extra:
            kind = "partial_target" if rel_target in extra else "debris_beside_target"
            res.fail(kind, tag, f"{type(exc).__name__} raised, new entries {sorted(extra)[:4]}")
    else:
        expected_new = {rel_target} | parent_dirs
        if export == "write_rtf":
            if not os.path.isfile(target):
                res.fail("success_without_file", tag, "")
            else:
                with open(target, "rb") as f:
                    data = f.read()
                if case.get("rewrite"):
                    now = orig_encode(doc).encode("utf-8")
                    if data != now:
                        res.fail("file_differs_from_rtf_encode", tag + "/after_in_place_change", f"{len(data)} bytes on disk, rtf_encode() of the document returns {len(now)}")
                elif not captured or data != captured[-1].encode("utf-8"):
                    res.fail("file_differs_from_rtf_encode", tag, f"{len(data)} bytes on disk, rtf_encode returned {len(captured[-1].encode('utf-8')) if captured else None}")
                elif not read(data).ok():
                    res.fail("file_not_well_formed", tag, "")
        else:
            fmt = FMT[export]
            if case["stub"] not in ("ok", "html_with_files", "real_ok", "real_html_files", "ok_empty", "real_empty"):
                res.fail("success_despite_converter_failure", tag, f"returned normally with stub behaviour {case['stub']}")
            if case.get("rewrite") and isinstance(stub, Stub) and stub.input_bytes is not None:
                now = orig_encode(doc).encode("utf-8")
                if stub.input_bytes != now:
                    res.fail("converter_input_differs_from_rtf_encode", tag + "/after_in_place_change", f"converter read {len(stub.input_bytes)} bytes, rtf_encode() returns {len(now)}")
            if not os.path.isfile(target):
                res.fail("success_without_file", tag, "")
            else:
                with open(target, "rb") as f:
                    want_bytes = b"" if case["stub"] in ("ok_empty", "real_empty") else (REAL_PAYLOAD if case["stub"].startswith("real_") else PAYLOAD + fmt.encode())
                    if f.read() != want_bytes:
                        res.fail("target_content", tag, "target does not hold the converter's bytes")
            if export == "write_html" and case["stub"] in ("html_with_files", "real_html_files"):
                stem = Path(case["name"]).stem
                rd = os.path.normpath(os.path.join(os.path.dirname(rel_target), f"{stem}.html_files"))
                want = {rd + "/": "dir", os.path.join(rd, "img0.png"): hashlib.sha256(b"IMG0").hexdigest()}
                got = {k: v for k, v in after_area.items() if k == rd + "/" or k.startswith(rd + os.sep)}
                if got != want:
                    res.fail("html_resources", f"{case['target']}/{'html' if case['name'].endswith('.html') else 'other_name'}",
                             f"resource folder holds {sorted(got)} expected {sorted(want)}")
                expected_new |= set(want)
        stray = {k for k in new_entries if k not in expected_new}
        if stray:
            res.fail("debris_beside_target", tag + "/success", f"unexpected new entries {sorted(stray)[:4]}")
        gone = {k for k in before_area if k not in after_area and not (export == "write_html" and "html_files" in k)}
        if gone:
            res.fail("removed_unrelated", tag, str(sorted(gone)[:3]))
    inside = bool(fired) and case["fault"] is not None and 1 < case["fault"] < ncalls + (0 if outcome[0] == "ok" else 10 ** 6)
    res.labels = ["export=" + export, "stub=" + case["stub"], "target=" + case["target"], "fault=" + ("none" if case["fault"] is None else "fired" if fired else "not_reached"),
                  "outcome=" + ("raised" if outcome[0] == "exc" else "returned"),
                  "exc=" + (type(outcome[1]).__name__ if outcome[0] == "exc" else "-"), "re-export_after_change" if case.get("rewrite") else "first_export", "home_relative_" + case["tilde"] if case.get("tilde") else "plain_path"]
    res.nontrivial = (fired and case["fault"] > 1) or case["stub"] not in ("ok", "real_ok") or case["target"] != "absent"
    shutil.rmtree(base, ignore_errors=True)
    return res


def extra_evidence(tier, merged):
    sites = set()
    total = 0
    for export in EXPORTS:
        for di in range(len(DOCS)):
            try:
                c = call_profile(export, di)
            except Exception:
                continue
            sites |= set(c)
            total += len(c)
    return {"distinct_call_sites": len(sites), "call_instances_in_pool": total}


def reductions(case):
    if case.get("rewrite"):
        yield {k: v for k, v in case.items() if k != "rewrite"}
    if case["doc"] != 0:
        yield dict(case, doc=0)
    if case["target"] != "absent":
        yield dict(case, target="absent")
    if case["stub"] not in ("ok", "real_ok") and case["export"] != "write_rtf":
        yield dict(case, stub="ok")
    if case["fault"] is not None:
        yield dict(case, fault=None)
