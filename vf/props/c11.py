"""C11 - text conversion translates exactly the documented tokens and nothing else."""
from __future__ import annotations

import re

from hypothesis import strategies as st

from .. import refdata
from ..common import run_recipe
from ..engine import Result
from ..model import classify
from ..rtfread import Para, Row, read

ID = "C11"
LEVEL = "exploration"
RULE = ("All 682 supported commands (exhaustive) x 14 context templates (alone, start / middle / end, followed by a "
        "letter, digit, blank, brace group, punctuation, '^', '_', another command, itself), the 26 braced commands "
        "and braced near-misses, unknown commands, every special sequence (^ _ >= <= newline \\pagenumber \\totalpage "
        "\\pagefield) and their overlaps, Hypothesis-generated mixed texts; placed in body cells (per-cell "
        "text_convert matrix; also full per-cell matrices and 2-3 row recycled patterns over 1-3 columns, paginated, next to a removed page_by column), title, subline, column header, footnote, source, page header and footer, each with "
        "its default text_convert and with the override (a quarter of these: rendered once, text_convert switched in place, rendered again); body text also in a Categorical column. Oracle: an independent reference converter written from "
        "the statement and the frozen command table produces the expected RTF fragment; both it and the emitted "
        "run are reduced by the same independent reader to (text runs with super/sub state, line breaks, \\chpgn, "
        "NUMPAGES field, unknown control words) and compared. With conversion off the expected fragment is the "
        "input verbatim. Non-trivial = input has a supported command or special sequence and a neighbouring "
        "character that must survive; distinct by sha1 of case.")
ASSUMPTIONS = ["one tolerated blank: after the sign produced from '>=' / '<=' and after the field produced from \\pagefield "
               "(the documented replacement strings end in a delimiter blank that survives as a literal blank)",
               "inputs contain backslashes and braces only as LaTeX-style commands with balanced brace groups"]

TABLE = refdata.latex_table()
CMDS = sorted(k for k in TABLE if re.fullmatch(r"\\[a-zA-Z]+", k))
BRACED = sorted(k for k in TABLE if "{" in k)
TOKEN = re.compile(r"\\[a-zA-Z]+(?:\{[^}]*\})?")
PASS1 = [("^", "\\super "), ("_", "\\sub "), (">=", "\\geq "), ("<=", "\\leq "), ("\n", "\\line "),
         ("\\pagenumber", "\\chpgn "), ("\\totalpage", "\\totalpage "), ("\\pagefield", "{\\field{\\*\\fldinst NUMPAGES }} ")]
DEFAULT_CONVERT = {"body": True, "title": True, "subline": False, "header": True, "footnote": True, "source": True,
                   "page_header": False, "page_footer": False}
PLAIN = "abcXYZ019 .,;:-+()[]/%#&*!?="


def reference(text: str, convert: bool) -> str:
    """Expected RTF fragment (with literal Unicode characters) according to the statement."""
    if not convert:
        return text
    for a, b in PASS1:
        text = text.replace(a, b)
    return TOKEN.sub(lambda m: TABLE.get(m.group(0), m.group(0)), text)


def rtf_escape(s: str) -> str:
    out = []
    for ch in s:
        cp = ord(ch)
        if cp < 128:
            out.append(ch)
            continue
        units = [cp] if cp <= 0xFFFF else [0xD800 + ((cp - 0x10000) >> 10), 0xDC00 + ((cp - 0x10000) & 0x3FF)]
        for u in units:
            out.append("\\uc1\\u%d?" % (u - 65536 if u >= 32768 else u))
    return "".join(out)


def normalise(t):
    """Ordered event list of a text container: merged text runs with (super, sub) state, line breaks,
    \\chpgn, NUMPAGES field, unknown control words."""
    out = []
    for e in t.events:
        if e[0] == "t":
            key = e[2] if len(e) > 2 else (False, False)
            if out and out[-1][0] == "t" and out[-1][2] == key:
                out[-1] = ("t", out[-1][1] + e[1], key)
            else:
                out.append(("t", e[1], key))
        else:
            out.append(tuple(e))
    return out


def split_lines(seq):
    lines = [[]]
    for e in seq:
        if e[0] == "cw" and e[1] == "line":
            lines.append([])
        else:
            lines[-1].append(e)
    return lines


def expected_of(fragment):
    """fragment: one RTF fragment, or a list of fragments (lines of a multi-line component: each line is a
    group of its own, lines joined by \\line)."""
    frags = fragment if isinstance(fragment, (list, tuple)) else [fragment]
    inner = "\\line".join("\\fs18{\\f0 " + rtf_escape(f) + "}" for f in frags)
    d = read("{\\rtf1\\ansi {\\pard" + inner + "\\par}}")
    paras = [b for b in d.pages[0] if isinstance(b, Para)]
    if not paras:
        from ..rtfread import Text
        return normalise(Text()), d
    return normalise(paras[0]), d


def strip_one_blank_variants(text, convert):
    """Fragments accepted: the reference, and the reference without the single delimiter blank after >= / <= / \\pagefield."""
    ref = reference(text, convert)
    if not convert:
        return [ref]
    alts = {ref}
    p1 = text
    variants = [PASS1]
    loose = [(a, (b[:-1] if a in (">=", "<=", "\\pagefield") else b)) for a, b in PASS1]
    t2 = text
    for a, b in loose:
        t2 = t2.replace(a, b)
    # without the blank the sign command would merge with following letters; apply the mapping after tokenising instead
    t3 = text
    for a, b in PASS1:
        t3 = t3.replace(a, b)
    t3 = TOKEN.sub(lambda m: TABLE.get(m.group(0), m.group(0)), t3)
    t3 = t3.replace("\u2265 ", "\u2265").replace("\u2264 ", "\u2264").replace("NUMPAGES }} ", "NUMPAGES }}")
    alts.add(t3)
    return sorted(alts)


# ---------------------------------------------------------------------------------- generation

def templates(cmd):
    other = "\\beta" if cmd != "\\beta" else "\\gamma"
    return [cmd, cmd + " x", "x " + cmd, "a " + cmd + " b", cmd + "x", cmd + "1", cmd + ".", cmd + "{}", cmd + "{x}",
            cmd + "^2", cmd + "_i", cmd + other, cmd + cmd, "(" + cmd + ")" + ">=" + cmd]


SPECIALS = ["a^b", "a_b", "x>=y", "x<=y", "<=>=", "a\nb", "a\n", "\nb", "\n", "a\n\nb", "x\n ", "\\pagenumber", "\\totalpage", "\\pagefield", "Page \\pagenumber of \\pagefield",
            "\\leq", "\\geq x", "_\\alpha", "^\\beta_\\gamma", "a>=\\alpha", "x^", "_", "^", ">=", "<=", "=>", "=<", "a>b<c", "\\pagenumberx",
            "\\totalpages", "a\\\\b".replace("\\\\", "\\zqa "), "\\sqrt[3]", "\\sqrt[4]x", "\\|", "\\:", "\\zqfoo", "\\zqfoo{a b}", "\\Alpha \\alpha",
            "caf\u00e9 >= 5", "\u00e9^2_\u00fc", "\u2192 \\alpha \u4e2d", "\\alpha\u00e9", "\U0001d6fc\\beta", "\\mathbb {R}", "\\mathbb{R}x", "\\mathbb{RR}", "\\mathbb{r}", "\\mathcal{L}(\\theta)", "\\mathbb{\\Gamma}", "\\alpha{}\\beta", "50\\% \\pm 2"]


def enumerate_cases(tier):
    texts = []
    for cmd in CMDS:
        texts += templates(cmd)
    for cmd in BRACED:
        texts += [cmd, cmd + " x", "x" + cmd, cmd + cmd, cmd[:-1] + "x}", cmd + "{y}"]
    texts += SPECIALS
    step = 3 if tier == "quick" else 1
    texts = texts[::step] + SPECIALS
    for i in range(0, len(texts), 200):
        chunk = texts[i:i + 200]
        yield {"where": "body", "texts": chunk, "convert": [True] * len(chunk)}
        if (i // 200) % 4 == 0:
            yield {"where": "body", "texts": chunk, "convert": [bool((k // 3) % 2) for k in range(len(chunk))]}
    # the SAME strings with conversion on and off in one document, in both orders (memoised conversions show here)
    dup = SPECIALS[:30] + [CMDS[i] + "_x^2" for i in range(0, len(CMDS), 97)]
    yield {"where": "body", "texts": dup + dup, "convert": [True] * len(dup) + [False] * len(dup)}
    yield {"where": "body", "texts": dup + dup, "convert": [False] * len(dup) + [True] * len(dup)}
    for where in ("title", "subline", "header", "footnote", "source", "page_header", "page_footer"):
        for conv in (None, True, False):
            yield {"where": where, "texts": SPECIALS[:24] if where in ("title",) else SPECIALS[:6] + ["\\alpha^2 >= \\beta"], "convert": conv}


@st.composite
def _text(draw):
    parts = draw(st.lists(st.one_of(
        st.text(alphabet=PLAIN, min_size=0, max_size=5),
        st.sampled_from(CMDS), st.sampled_from(CMDS), st.sampled_from(BRACED),
        st.sampled_from(["^", "_", ">=", "<=", "\\pagenumber", "\\totalpage", "\\pagefield", "\\zqx", "\\zq{b c}", "{x}", ">", "<", "="]),
        st.text(alphabet="abAB", min_size=1, max_size=2),
        # "all other characters stay unchanged": literal non-ASCII characters (escaped on output, read back as themselves)
        st.sampled_from(["\u00e9", "\u00df", "\u2192", "\u4e2d", "\U0001d6fc", " \u00b5g", "na\u00efve"]),
    ), min_size=1, max_size=6))
    return "".join(parts)


@st.composite
def _case(draw):
    where = draw(st.sampled_from(["body"] * 4 + ["body_matrix"] * 2 + ["title", "subline", "header", "footnote", "source", "page_header", "page_footer"]))
    if where == "body_matrix":
        # a full text_convert matrix over 1-3 columns, paginated, optionally next to a page_by column that is removed
        n, k = draw(st.integers(2, 10)), draw(st.integers(1, 3))
        return {"where": "body_matrix", "texts": [[draw(_text()) for _ in range(k)] for _ in range(n)],
                "convert": [[draw(st.booleans()) for _ in range(k)] for _ in range(n)],
                "nrow": draw(st.sampled_from([3, 4, 6, 100000])), "group": draw(st.sampled_from([None, None, "first", "middle"])),
                # a short per-row pattern (first p rows of the flag grid, recycled down the table) instead of the full grid
                "pattern": draw(st.sampled_from([None, None, 2, 3])) if n >= 4 else None}
    if where == "body":
        n = draw(st.integers(1, 12))
        return {"where": "body", "texts": [draw(_text()) for _ in range(n)], "convert": [draw(st.booleans()) for _ in range(n)],
                "dtype": draw(st.sampled_from(["str", "str", "cat"]))}      # text may also sit in a Categorical column
    n = draw(st.integers(1, 3)) if where in ("title", "subline", "header", "page_header", "page_footer") else 1
    case = {"where": where, "texts": [draw(_text()) for _ in range(n)], "convert": draw(st.sampled_from([None, True, False]))}
    if draw(st.integers(0, 3)) == 0:
        # history: the document is rendered, the component's text_convert is switched in place, it is rendered again
        case["toggle"] = True
    return case


def strategy(tier):
    return _case()


def budget(tier):
    return 400 if tier == "quick" else 4000


def build_recipe(case):
    where, texts, conv = case["where"], case["texts"], case["convert"]
    n = len(texts)
    if where == "body_matrix":
        k = len(texts[0])
        cols = [{"name": f"@N{j}", "dtype": "str", "values": [row[j] for row in texts]} for j in range(k)]
        flags = [list(r) for r in conv]
        if case.get("pattern"):
            flags = flags[: case["pattern"]]
        body = {}
        if case.get("group"):
            at = 0 if case["group"] == "first" else min(1, k)
            cols.insert(at, {"name": "@Ng", "dtype": "str", "values": [f"@G0:v{i // 3}" for i in range(n)]})
            for r in flags:
                r.insert(at, True)      # the flag grid covers the ORIGINAL columns
            body["page_by"] = ["@Ng"]
        body["text_convert"] = flags
        return {"kind": "table", "page": {"nrow": case["nrow"]}, "sections": [{"df": {"cols": cols}, "body": body, "headers": "none"}]}
    if where == "body":
        cols = [{"name": "@N0", "dtype": case.get("dtype", "str"), "values": list(texts)}]
        body = {"text_convert": {"t": list(conv)}}
        return {"kind": "table", "page": {"nrow": 100000}, "sections": [{"df": {"cols": cols}, "body": body, "headers": "none"}]}
    cols = [{"name": f"@N{j}", "dtype": "str", "values": ["r0"]} for j in range(n if where == "header" else 1)]
    rec = {"kind": "table", "page": {"nrow": 40}, "sections": [{"df": {"cols": cols}, "body": {}, "headers": "none"}]}
    spec = {"text": list(texts)}
    if conv is not None:
        spec["text_convert"] = conv
    if where == "header":
        rec["sections"][0]["headers"] = [spec]
    else:
        rec[where] = spec
        if where in ("footnote", "source"):
            spec["as_table"] = True if len(texts[0]) % 2 else False
    return rec


ARG = {"title": "rtf_title", "subline": "rtf_subline", "footnote": "rtf_footnote", "source": "rtf_source", "page_header": "rtf_page_header",
       "page_footer": "rtf_page_footer", "header": "rtf_column_header"}


def toggled(rec, where, conv):
    """Render once, switch the component's text_convert in place, render again: (outcome of the second rendering, new flag)."""
    from .. import recipe as R
    from ..common import Outcome, innermost_frame
    new = not (DEFAULT_CONVERT[where] if conv is None else conv)
    out = Outcome()
    try:
        out.built = R.build(rec)
    except Exception as e:
        out.build_error = f"{type(e).__name__}: {str(e)[:200]}"
        return out, new
    try:
        doc = out.built.doc
        doc.rtf_encode()
        comp = getattr(doc, ARG[where])
        if where == "header":
            comp = comp[0]
        comp.text_convert = new
        out.rtf = doc.rtf_encode()
    except Exception as e:
        out.encode_error = (type(e).__name__, innermost_frame(e), str(e)[:200])
        return out, new
    out.doc = read(out.rtf)
    return out, new


def check(case) -> Result:
    res = Result()
    where, texts, conv = case["where"], case["texts"], case["convert"]
    rec = build_recipe(case)
    if case.get("toggle") and where not in ("body", "body_matrix"):
        out, conv = toggled(rec, where, conv)
    else:
        out = run_recipe(rec)
    if out.build_error:
        res.harness_error = "recipe does not build: " + out.build_error
        return res
    if out.encode_error:
        res.fail("encode_raises", f"{where}/{out.encode_error[0]}", out.encode_error[2])
        return res
    d = out.doc
    conts = []          # (text container, input text, convert flag)
    eff = (lambda c: DEFAULT_CONVERT[where] if c is None else c)
    if where == "body_matrix":
        rows = [it.block for pg in classify(d) for it in pg if it.role == "data"]
        if len(rows) != len(texts) or any(len(r.cells) != len(texts[0]) for r in rows):
            res.fail("structure", "body_matrix/row_or_cell_count", f"{len(rows)} rows for {len(texts)}; anomalies {d.anom[:2]}")
            return res
        p_ = case.get("pattern")
        eff_conv = [conv[i % p_] if p_ else conv[i] for i in range(len(conv))]
        conts = [(cell, t, c) for r, trow, crow in zip(rows, texts, eff_conv) for cell, t, c in zip(r.cells, trow, crow)]
    elif where == "body":
        rows = [b for pg in d.pages for b in pg if isinstance(b, Row)]
        if len(rows) != len(texts):
            res.fail("structure", "body/row_count", f"{len(rows)} rows for {len(texts)} texts; anomalies {d.anom[:2]}")
            return res
        conts = [(r.cells[0], t, c) for r, t, c in zip(rows, texts, conv)]
    elif where == "header":
        rows = [b for pg in d.pages for b in pg if isinstance(b, Row)]
        if not rows or len(rows[0].cells) != len(texts):
            res.fail("structure", "header/cell_count", f"anomalies {d.anom[:2]}")
            return res
        conts = [(c, t, eff(conv)) for c, t in zip(rows[0].cells, texts)]
    elif where in ("page_header", "page_footer"):
        lst = d.headers if where == "page_header" else d.footers
        paras = [b for blocks in lst for b in blocks if isinstance(b, Para)]
        if not paras:
            res.fail("structure", f"{where}/missing", "")
            return res
        conts = [(paras[0], "\n".join(texts), eff(conv))] if False else [(paras[0], texts, eff(conv))]
    else:
        blocks = [b for pg in d.pages for b in pg]
        target = None
        for b in blocks:
            if where in ("footnote", "source") and isinstance(b, Row) and len(b.cells) == 1 and b.cells[0].text != "r0":
                target = b.cells[0]
            if isinstance(b, Para) and (b.text or b.events) and target is None and where in ("title", "subline", "footnote", "source"):
                target = b
        if target is None:
            vis = [expected_of(reference(t, eff(conv)))[0] for t in texts]
            if not "".join(texts).strip() or not any(vis):
                res.labels = ["where=" + where, "empty_text"]
                return res
            res.fail("structure", f"{where}/missing", f"anomalies {d.anom[:2]}")
            return res
        conts = [(target, texts, eff(conv))]
    nontriv = False
    for cont, text, c in conts:
        res.checks += 1
        if isinstance(text, list) and where in ("footnote", "source"):
            # footnote / source: the lines are joined with "\\line " first and converted as ONE text
            joined = "\\line ".join(text)
            alts = strip_one_blank_variants(joined, c)
            src = " | ".join(text)
        elif isinstance(text, list):
            # multi-line components: every line is converted on its own (own group) and lines are joined by \\line
            src = " | ".join(text)
            if not "".join(text).strip():
                continue
            got_lines = split_lines(normalise(cont))
            per_line = [[split_lines(expected_of(a)[0]) for a in strip_one_blank_variants(t, c)] for t in text]
            want_n = sum(len(alts[0]) for alts in per_line)
            if len(got_lines) != want_n:
                res.fail("conversion" if c else "verbatim", f"{where}/line_count", f"{len(got_lines)} lines rendered, expected {want_n}: {src!r}")
                continue
            pos = 0
            for ln, (t, alts) in enumerate(zip(text, per_line)):
                k = len(alts[0])
                gl = got_lines[pos:pos + k]
                pos += k
                if gl not in alts:
                    res.fail("conversion" if c else "verbatim", f"{where}/{classify_text(t)}", f"line {ln} input {t!r} convert={c}: got {gl} expected {alts[0]}")
            if c and (any(k in src for k in ("^", "_", ">=", "<=", "\\page", "\\total")) or TOKEN.search(src)) and len(src) > 2:
                nontriv = True
            continue
        else:
            alts = strip_one_blank_variants(text, c)
            src = text
        got = normalise(cont)
        if not "".join(text if isinstance(text, list) else [text]).strip():
            continue            # nothing to render: an empty component may be omitted altogether
        ok = False
        first = None
        for a in alts:
            exp, _ = expected_of(a)
            if first is None:
                first = exp
            if exp == got:
                ok = True
                break
        if not ok:
            res.fail("conversion" if c else "verbatim", f"{where}/{classify_text(src)}", f"input {src!r} convert={c}: got {got} expected {first}")
        if c and (any(k in src for k in ("^", "_", ">=", "<=", "\\page", "\\total")) or TOKEN.search(src)) and len(src) > 2:
            nontriv = True
    if where == "body_matrix":
        conv = [c for row in conv for c in row]
        res.labels = ["paginated" if len(d.pages) > 1 else "one_page", "page_by_removed" if case.get("group") else "no_removed_column",
                      "recycled_pattern" if case.get("pattern") else "full_grid"]
    else:
        res.labels = ["switched_in_place_after_a_rendering"] if case.get("toggle") else []
    res.labels += ["where=" + where, "convert=" + ("mixed" if isinstance(conv, list) and len(set(conv)) > 1 else str(conv if not isinstance(conv, list) else conv[0]))]
    res.nontrivial = nontriv
    return res


def _product(lists):
    import itertools
    return list(itertools.islice(itertools.product(*lists), 16))


def classify_text(s):
    m = TOKEN.search(s)
    if m:
        tok = m.group(0)
        return ("braced_" if "{" in tok else "") + ("known_command" if tok in TABLE else "unknown_command")
    for k, name in (("^", "super"), ("_", "sub"), (">=", "geq"), ("<=", "leq"), ("\n", "newline")):
        if k in s:
            return name
    return "plain"


def reductions(case):
    """Fewer texts (halves, then single texts), then shorter texts."""
    texts, conv = case["texts"], case["convert"]
    n = len(texts)
    if case.get("toggle"):
        yield {k: v for k, v in case.items() if k != "toggle"}
    if n > 1:
        for lo, hi in ((0, n // 2), (n // 2, n)):
            yield dict(case, texts=texts[lo:hi], convert=conv[lo:hi] if isinstance(conv, list) else conv)
        if n <= 16:
            for i in range(n):
                yield dict(case, texts=texts[:i] + texts[i + 1:], convert=(conv[:i] + conv[i + 1:]) if isinstance(conv, list) else conv)
    if case.get("where") == "body_matrix":
        if case.get("group"):
            yield dict(case, group=None)
        if case.get("pattern"):
            yield dict(case, pattern=None)
        if case.get("nrow") != 100000:
            yield dict(case, nrow=100000)
        return
    for i, t in enumerate(texts[:8]):
        if len(t) > 1:
            for cut in (t[: len(t) // 2], t[len(t) // 2:], t[1:], t[:-1]):
                yield dict(case, texts=texts[:i] + [cut] + texts[i + 1:])
