"""C10 - every Unicode character reaches the reader intact (round-trip on the bytes written by write_rtf)."""
from __future__ import annotations

import contextlib
import io
import os

from hypothesis import strategies as st

from .. import refdata
from .. import recipe as R
from ..engine import Result
from ..model import classify
from ..rtfread import Para, read

ID = "C10"
LEVEL = "exploration"
RULE = ("Exhaustive: every Unicode scalar value except C0/C1 controls (thorough: all 1,111,998 code points; quick: all "
        "of U+0080-U+00FF and U+0100-U+02FF, every plane / surrogate / 0x7FFF-0x8000 boundary, the 682 LaTeX target "
        "characters, every Unicode digit / number / space separator and a seeded stratified sample), 1024 per document as body cells 'a<ch>b', '<ch>' and '<ch><ch>' "
        "(string boundaries), written with write_rtf and read back from the BYTES. Random: mixed ASCII / Latin-1 / "
        "BMP / astral strings in every text-bearing position (body cell, explicit and default column header, title, "
        "subline, footnote and source as table and as paragraph, page_by heading, subline_by heading, page header "
        "and footer) with conversion on and off. Oracle: the reader's decoded text (7-bit ASCII, \\'hh and raw high "
        "bytes through the declared ANSI code page, \\uN with \\ucN skipping, surrogate pairs) equals the original "
        "string; every \\u parameter within [-32768, 32767] and followed by exactly \\uc fallback characters. "
        "Non-trivial = the text contains a character >= U+0080; distinct by sha1 of case.")
ASSUMPTIONS = ["\\ansi without \\ansicpg is read as Windows-1252", "texts contain no conversion triggers (^ _ >= <= backslash braces), so conversion on/off is the identity"]

SAFE_ASCII = "abcXYZ019 .,;:-+()[]/%#&*!?='\""
# characters that text-handling code likes to treat specially (separators, invisible / combining / BOM / replacement)
SPECIALS = ["\u2028", "\u2029", "\u00a0", "\u00ad", "\u2011", "\u200b", "\u200d", "\ufeff", "\ufffd", "e\u0301", "\u2126", "\u212b",
            "\u3000", "\u2002", "x\u2028", "\u2029y", "\ufb01", "\u2122", "\u00b1", "\u0131"]
# whole texts that number parsers accept although they are not ASCII (Unicode digits, Unicode-space padding)
NUMERIC_LOOKING = ["\u00a012.5", "12.5\u00a0", "\u2007\u20077", "\u0663", "\u0661\u0662.\u0665", "\uff11\uff12", "-\u0967\u0968", "\u30001e3",
                   "\U0001d7d8\U0001d7d9", "\u0669\u0660\u00a0", "1\u2009000"]


def valid_cp(cp):
    return not (cp < 0x20 or 0x7F <= cp <= 0x9F or 0xD800 <= cp <= 0xDFFF or cp > 0x10FFFF) and chr(cp) not in "\\{}^_<>"


def cls_of(cp):
    if cp < 0x80:
        return "ascii"
    if cp <= 0xFF:
        return "latin1"
    if cp < 0x8000:
        return "bmp_low"
    if cp <= 0xFFFF:
        return "bmp_high"
    return "astral"


def enumerate_cases(tier):
    if tier == "thorough":
        for start in range(0, 0x110000, 1024):
            yield {"cps_range": [start, min(start + 1024, 0x110000)]}
        yield from special_positions()
        yield from raw_cases()
        return
    special = set(range(0x80, 0x300))
    for b in (0x7FF, 0x800, 0x7FFF, 0x8000, 0xD7FF, 0xE000, 0xFFFD, 0xFFFF, 0x10000, 0x10FFFF, 0x1F600, 0x20000, 0xE0001, 0xF0000, 0x100000):
        special.update(range(max(0x20, b - 3), min(0x10FFFF, b + 3) + 1))
    special.update(ord(c) for c in refdata.latex_table().values())
    # characters with a meaning for number / whitespace handling: every decimal digit, letter-number, other number
    # and space separator of Unicode (a lone one is a whole text that float() / int() / strip() treat specially)
    import unicodedata
    special.update(cp for cp in range(0x80, 0x110000) if unicodedata.category(chr(cp)) in ("Nd", "Nl", "No", "Zs", "Zl", "Zp"))
    cps = sorted(c for c in special if valid_cp(c))
    for i in range(0, len(cps), 512):
        yield {"cps": cps[i:i + 512]}
    yield from special_positions()
    yield from raw_cases()


@st.composite
def _payload(draw, convert_safe=True):
    part = st.one_of(
        st.text(alphabet=SAFE_ASCII, max_size=4),
        st.text(alphabet=st.characters(min_codepoint=0xA0, max_codepoint=0xFF), min_size=1, max_size=3),
        st.text(alphabet=st.characters(min_codepoint=0x100, max_codepoint=0xFFFF, blacklist_categories=("Cs",)), min_size=1, max_size=3),
        st.text(alphabet=st.characters(min_codepoint=0x10000, max_codepoint=0x10FFFF), min_size=1, max_size=2),
    )
    part = st.one_of(part, st.sampled_from(SPECIALS), st.sampled_from(SPECIALS))
    s = "".join(draw(st.lists(part, min_size=1, max_size=4)))
    return "".join(ch for ch in s if valid_cp(ord(ch)))


@st.composite
def _positions(draw):
    n = draw(st.integers(1, 5))
    strat = draw(st.sampled_from(["plain", "page_by", "subline"]))
    conv = draw(st.booleans())
    p = lambda: draw(_payload())
    cols = []
    if strat != "plain":
        tag = "@G0" if strat == "page_by" else "@B0"
        g = [f"{tag}:v0{p()}"] * (n // 2 + 1) + [f"{tag}:v1{p()}"] * n
        cols.append({"name": "@N0" + p(), "dtype": "str", "values": g[:n]})
    k = len(cols)
    for j in range(draw(st.integers(1, 2))):
        cols.append({"name": f"@N{k + j}" + p(), "dtype": "str", "values": [f"r{i}c{k + j} " + p() for i in range(n)]})
    body = {"text_convert": conv}
    if strat == "page_by":
        body["page_by"] = [cols[0]["name"]]
    if strat == "subline":
        body["subline_by"] = [cols[0]["name"]]
    sec = {"df": {"cols": cols}, "body": body}
    nd = len(R.displayed_columns(sec))
    hmode = draw(st.sampled_from(["default", "explicit"]))
    sec["headers"] = "default" if hmode == "default" else [{"text": [f"@H0.{c}" + p() for c in range(nd)], "text_convert": conv}]
    rec = {"kind": "table", "page": {"nrow": draw(st.sampled_from([3, 6, 40]))}, "sections": [sec]}
    if draw(st.booleans()):
        rec["title"] = {"text": ["@T0" + p(), "@T1" + p()], "text_convert": conv}
    if draw(st.booleans()):
        rec["subline"] = {"text": ["@U0" + p()], "text_convert": conv}
    for key, tag in (("footnote", "@F"), ("source", "@S")):
        if draw(st.booleans()):
            rec[key] = {"text": [f"{tag}0" + p(), f"{tag}1" + p()], "as_table": draw(st.booleans()), "text_convert": conv}
    if draw(st.booleans()):
        rec["page_header"] = {"text": ["@P0" + p()], "text_convert": conv}
    if draw(st.booleans()):
        rec["page_footer"] = {"text": ["@Q0" + p()], "text_convert": conv}
    if draw(st.sampled_from([False] * 4 + [True])):
        # mostly inside the text path (conversion / escaping modules), where the library has "warn and keep the text" handlers
        rec["fault_in"] = draw(st.sampled_from(["text", "text", "text", "any"]))
        rec["fault_k"] = draw(st.integers(1, 400)) if rec["fault_in"] == "text" else draw(st.integers(1, 3000))
    return rec


def special_positions():
    """Every special character, at the start / middle / end of the text of every text-bearing position."""
    for sp in SPECIALS:
        for form in ("a%sb", "%sb", "a%s"):
            t = form % sp
            for conv in (True, False):
                for fn_table in (True, False):
                    cols = [{"name": "@N0" + t, "dtype": "str", "values": ["@G0:v0" + t, "@G0:v0" + t]},
                            {"name": "@N1" + t, "dtype": "str", "values": ["r0c1 " + t, "r1c1 " + t]}]
                    body = {"text_convert": conv, "page_by" if fn_table else "subline_by": [cols[0]["name"]]}
                    if not fn_table:
                        cols[0]["values"] = ["@B0:v0" + t] * 2
                    yield {"kind": "table", "page": {"nrow": 40}, "sections": [{"df": {"cols": cols}, "body": body, "headers": "default"}],
                           "title": {"text": ["@T0" + t], "text_convert": conv}, "subline": {"text": ["@U0" + t], "text_convert": conv},
                           "footnote": {"text": ["@F0" + t, "@F1" + t], "as_table": fn_table, "text_convert": conv},
                           "source": {"text": ["@S0" + t], "as_table": not fn_table, "text_convert": conv},
                           "page_header": {"text": ["@P0" + t], "text_convert": conv}, "page_footer": {"text": ["@Q0" + t], "text_convert": conv}}


def raw_cases():
    """Texts that BEGIN with a special character (no sentinel tag in front): elements are identified by the fixed
    document structure instead of by tags."""
    for sp in SPECIALS:
        for conv in (True, False):
            yield {"raw": True, "sp": sp, "convert": conv}
            # the same texts handed over as ONE string instead of a list of lines
            yield {"raw": True, "sp": sp, "convert": conv, "single_str": True}
    for conv in (True, False):
        yield {"whole": NUMERIC_LOOKING, "convert": conv}
    # one unbroken run per text, far longer than any line / record limit (every character is written as an escape)
    runs = ["\u4e2d\u6587\u8868\u683c" * 900, "\U0001f600" * 1500, "\u00e9\u00fc\u00df" * 1300, "\u30ab\u30bf\u30ab\u30ca" * 800, "\u03b1\u03b2" * 1800]
    for conv in (True, False):
        yield {"whole": runs, "convert": conv}


def raw_recipe(case):
    sp, conv = case["sp"], case["convert"]
    t = lambda s: sp + s
    cols = [{"name": t("n0"), "dtype": "str", "values": [t("c00"), t("c10")]}, {"name": t("n1"), "dtype": "str", "values": [t("c01"), t("c11")]}]
    hdr = "default" if case.get("auto_header") else [{"text": [t("h0"), t("h1")], "text_convert": conv}, {"text": [t("k0"), t("k1")], "text_convert": conv}]
    # (one line only: a newline is a C0 control, outside this property; its conversion to a line break is C11's)
    one = (lambda lines: lines[0]) if case.get("single_str") else (lambda lines: lines)
    return {"kind": "table", "page": {"nrow": 40}, "sections": [{"df": {"cols": cols}, "body": {"text_convert": conv}, "headers": hdr}],
            "title": {"text": one([t("T0"), t("T1")]), "text_convert": conv}, "subline": {"text": one([t("U0")]), "text_convert": conv},
            "footnote": {"text": one([t("F0")]), "as_table": True, "text_convert": conv}, "source": {"text": one([t("S0")]), "as_table": False, "text_convert": conv},
            "page_header": {"text": one([t("P0")]), "text_convert": conv}, "page_footer": {"text": one([t("Q0")]), "text_convert": conv}}


def check_raw(case, res):
    from ..rtfread import Row
    for auto in (False, True):
        rec = raw_recipe(dict(case, auto_header=auto))
        d = write_and_read(rec, "raw")
        lexical(res, d, "document")
        blocks = [b for pg in d.pages for b in pg]
        paras = [b.text for b in blocks if isinstance(b, Para) and b.text]
        rows = [[c.text for c in b.cells] for b in blocks if isinstance(b, Row)]
        sec = rec["sections"][0]
        txt = lambda v: v if isinstance(v, str) else "\n".join(v)
        want_paras = [txt(rec["title"]["text"]), txt(rec["subline"]["text"]), txt(rec["source"]["text"])]
        hdr_rows = [[c["name"] for c in sec["df"]["cols"]]] if auto else [h["text"] for h in sec["headers"]]
        want_rows = hdr_rows + R.expected_rows(sec) + [[txt(rec["footnote"]["text"])]]
        where_rows = (["default_header"] if auto else ["explicit_header", "explicit_header_row2"]) + ["body_cell", "body_cell", "footnote_table"]
        if len(paras) != 3 or len(rows) != len(want_rows):
            res.fail("roundtrip", "raw/structure", f"{len(paras)} paragraphs, {len(rows)} rows for special {case['sp']!r}")
            continue
        for w, g, where in zip(want_paras, paras, ("title", "subline", "source_paragraph")):
            compare(res, where + "/text_start", w, g)
        for w, g, where in zip(want_rows, rows, where_rows):
            for k, (a, b) in enumerate(zip(w, g)):
                compare(res, where + ("/first_cell" if k == 0 else "") + "/text_start", a, b)
        for name, lst in (("page_header", d.headers), ("page_footer", d.footers)):
            got = [b.text for bl in lst for b in bl if isinstance(b, Para) and b.text]
            compare(res, name + "/text_start", txt(rec[name]["text"]), got[0] if got else "<missing>")
    res.labels = ["raw_text_start", "convert=" + ("on" if case["convert"] else "off"), "text_as_one_string" if case.get("single_str") else "text_as_list"]
    res.nontrivial = True


def strategy(tier):
    return _positions()


def budget(tier):
    return 300 if tier == "quick" else 3000


def write_and_read(recipe, name):
    work = os.environ.get("VERIF_WORK") or os.environ.get("TMPDIR") or "/tmp"
    path = os.path.join(work, f"c10_{os.getpid()}_{name}.rtf")
    built = R.build(recipe)
    with open(path, "wb") as f:          # the path already holds a longer file: nothing of it may survive
        f.write(b"{\\rtf1 OLD CONTENT \\u20013* }" * 4000)
    with contextlib.redirect_stdout(io.StringIO()):
        if recipe.get("fault_k"):
            # an exception surfaces at the k-th call into the library during the export: if the library raises, nothing is
            # judged; if it carries on (handlers that "warn and keep going"), whatever it writes must still read back exactly
            from ..faults import run_with_fault
            outc, fired, _ = run_with_fault(lambda: built.doc.write_rtf(path), recipe["fault_k"],
                                            only=("text_conversion", "row.py") if recipe.get("fault_in") == "text" else None)
            if outc[0] == "exc":
                if os.path.exists(path):
                    os.remove(path)
                raise FaultSurfaced()
        else:
            built.doc.write_rtf(path)
    with open(path, "rb") as f:
        data = f.read()
    os.remove(path)
    return read(data)


class FaultSurfaced(Exception):
    pass


def lexical(res, d, where):
    kinds = {}
    for e in d.lex:
        kinds.setdefault(e[0], e)
    for k, e in kinds.items():
        res.fail("lexical", f"{k}/{where}", repr(e)[:160])
    seen = set()
    for a in d.anom:
        if a[0] not in seen:
            seen.add(a[0])
            res.fail("structure", f"{a[0]}/{where}", repr(a)[:160])


def check_whole(case, res):
    """Whole texts (no tag, no neighbour character) in body cells, an explicit header and a table footnote."""
    from ..rtfread import Row
    texts = case["whole"]
    conv = case["convert"]
    cols = [{"name": "n0", "dtype": "str", "values": list(texts)}, {"name": "n1", "dtype": "str", "values": list(reversed(texts))}]
    rec = {"kind": "table", "page": {"nrow": 1000}, "sections": [{"df": {"cols": cols}, "body": {"text_convert": conv},
                                                               "headers": [{"text": [texts[0], texts[3]], "text_convert": conv}]}],
           "footnote": {"text": [texts[4]], "as_table": True, "text_convert": conv}}
    d = write_and_read(rec, "whole")
    lexical(res, d, "document")
    rows = [[c.text for c in b.cells] for pg in d.pages for b in pg if isinstance(b, Row)]
    want = [[texts[0], texts[3]]] + [[a, b] for a, b in zip(texts, reversed(texts))] + [[texts[4]]]
    if len(rows) != len(want):
        res.fail("roundtrip", "whole/structure", f"{len(rows)} rows, expected {len(want)}")
    else:
        for k, (w, g) in enumerate(zip(want, rows)):
            where = "explicit_header" if k == 0 else ("footnote_table" if k == len(want) - 1 else "body_cell")
            for a, b in zip(w, g):
                compare(res, where + "/whole_text", a, b)
    res.labels = ["whole_text_long_run" if len(texts[0]) > 100 else "whole_text_numeric_looking", "convert=" + ("on" if conv else "off")]
    res.nontrivial = True


def check_cps(case, res):
    if "cps" in case:
        cps = [c for c in case["cps"] if valid_cp(c)]
    else:
        cps = [c for c in range(*case["cps_range"]) if valid_cp(c)]
    if not cps:
        res.excluded = "no_valid_code_point_in_block"
        return
    chars = [chr(c) for c in cps]
    cols = [{"name": "@N0", "dtype": "str", "values": [f"a{ch}b" for ch in chars]},
            {"name": "@N1", "dtype": "str", "values": chars},
            {"name": "@N2", "dtype": "str", "values": [ch + ch for ch in chars]}]
    rec = {"kind": "table", "page": {"nrow": 100000}, "sections": [{"df": {"cols": cols}, "body": {}, "headers": "none"}]}
    d = write_and_read(rec, "cps")
    lexical(res, d, "body")
    rows = [it.texts for pg in classify(d) for it in pg if it.role == "data"]
    res.checks += 3 * len(cps)
    if len(rows) != len(cps):
        res.fail("roundtrip", "row_count", f"{len(rows)} rows for {len(cps)} code points")
        return
    bad = {}
    for cp, ch, got in zip(cps, chars, rows):
        want = [f"a{ch}b", ch, ch + ch]
        if got != want:
            form = "single" if got[1] != want[1] else ("embedded" if got[0] != want[0] else "doubled")
            bad.setdefault((cls_of(cp), form), []).append((cp, got))
    for (c, form), lst in bad.items():
        cp, got = lst[0]
        res.fail("roundtrip", f"{c}/body_cell/{form}", f"{len(lst)} code points, e.g. U+{cp:04X}: read back {got!r}")
    res.labels = ["exhaustive_block"] + sorted({"class=" + cls_of(c) for c in cps})
    res.nontrivial = any(c >= 0x80 for c in cps)


def compare(res, where, want, got):
    res.checks += 1
    if want != got:
        cps = [ord(ch) for ch in want if ord(ch) >= 0x80]
        c = cls_of(max(cps)) if cps else "ascii"
        res.fail("roundtrip", f"{c}/{where}", f"wrote {want!r} read {got!r}")


def check(case) -> Result:
    res = Result()
    try:
        if "cps" in case or "cps_range" in case:
            check_cps(case, res)
            return res
        if case.get("raw"):
            check_raw(case, res)
            return res
        if case.get("whole"):
            check_whole(case, res)
            return res
        d = write_and_read(case, "pos")
    except FaultSurfaced:
        res.excluded = "injected_fault_surfaced_as_exception"
        return res
    except Exception as e:
        import traceback
        res.fail("export_raises", type(e).__name__, traceback.format_exc()[-300:])
        return res
    lexical(res, d, "document")
    sec = case["sections"][0]
    body = sec["body"]
    disp = R.displayed_columns(sec)
    exp_rows = R.expected_rows(sec)
    pages = classify(d)
    di = 0
    gcol = R.column(sec, (R.as_list(body.get("page_by")) or R.as_list(body.get("subline_by")) or [None])[0])["values"] if (body.get("page_by") or body.get("subline_by")) else None
    for items in pages:
        for it in items:
            if it.role == "data":
                if di < len(exp_rows):
                    for w, g in zip(exp_rows[di], it.texts):
                        compare(res, "body_cell", w, g)
                di += 1
            elif it.role == "header":
                if it.texts[0].startswith("@H"):
                    for w, g in zip(sec["headers"][0]["text"], it.texts):
                        compare(res, "explicit_header", w, g)
                else:
                    for w, g in zip(disp, it.texts):
                        compare(res, "default_header", w, g)
            elif it.role == "title":
                compare(res, "title", "\n".join(case["title"]["text"]), it.texts[0])
            elif it.role == "subline":
                compare(res, "subline", "\n".join(case["subline"]["text"]), it.texts[0])
            elif it.role in ("fnrow", "fnpara"):
                compare(res, "footnote_" + ("table" if it.role == "fnrow" else "paragraph"), "\n".join(case["footnote"]["text"]), it.texts[0])
            elif it.role in ("srcrow", "srcpara"):
                compare(res, "source_" + ("table" if it.role == "srcrow" else "paragraph"), "\n".join(case["source"]["text"]), it.texts[0])
            elif it.role == "heading":
                res.checks += 1
                if it.texts[0] not in set(gcol or []):
                    compare(res, "page_by_heading", next((v for v in gcol if v[:6] == it.texts[0][:6]), "?"), it.texts[0])
            elif it.role == "sublinehead":
                res.checks += 1
                if it.texts[0] not in set(gcol or []):
                    compare(res, "subline_by_heading", next((v for v in gcol if v[:6] == it.texts[0][:6]), "?"), it.texts[0])
            elif it.role == "para?":
                res.fail("roundtrip", "unclassified_paragraph", repr(it.texts[0])[:80])
    if di != len(exp_rows):
        res.fail("roundtrip", "row_count", f"{di} of {len(exp_rows)}")
    for name, lst, tagname in (("page_header", d.headers, "page_header"), ("page_footer", d.footers, "page_footer")):
        spec = case.get(name)
        if spec:
            got = [b.text for blocks in lst for b in blocks if isinstance(b, Para) and b.text]
            compare(res, tagname, "\n".join(spec["text"]), got[0] if got else "<missing>")
    res.labels = ["positions", "history=" + ("fault_swallowed_during_export" if case.get("fault_k") else "none"), "convert=" + ("on" if body.get("text_convert") else "off"), "strategy=" + ("page_by" if body.get("page_by") else "subline" if body.get("subline_by") else "plain")]
    res.nontrivial = True
    return res


def reductions(case):
    from ..reduce import generic_reductions
    if case.get("raw") or case.get("whole"):
        return
    if "cps" in case or "cps_range" in case:
        cps = case.get("cps") or list(range(*case["cps_range"]))
        n = len(cps)
        if n > 1:
            yield {"cps": cps[: n // 2]}
            yield {"cps": cps[n // 2:]}
        return
    yield from generic_reductions(case)
