"""C19 - invalid configuration is rejected up front with ValueError."""
from __future__ import annotations

import itertools
import os

from hypothesis import strategies as st

from ..engine import Result

ID = "C19"
LEVEL = "exploration"
RULE = ("For every validated field named in the statement (RTFPage, RTFBody, RTFColumnHeader, RTFFootnote, "
        "RTFSource, RTFTitle/RTFSubline/RTFPageHeader/RTFPageFooter, RTFFigure, RTFDocument rules) an illegal "
        "value is planted at one position of a scalar / flat-list / per-row tuple / nested-list form among legal "
        "values. Positions are enumerated exhaustively for shapes up to 3x3 with 2-3 representative illegal "
        "values per field; Hypothesis adds random illegal values (strings outside the legal set, zero/negative "
        "numbers), shapes up to 4x5 and random legal fillers. Oracle: construction raises ValueError (pydantic "
        "ValidationError included; FileNotFoundError for a missing figure, also when the file existed and was used earlier in the process) and the same case with the illegal "
        "value replaced by a legal one constructs. Non-trivial = illegal value not in first position or inside "
        "a nested list; distinct by sha1 of case.")
ASSUMPTIONS = ["legal sets are taken from the documentation / constants of the pinned tree (border styles, "
               "format letters, justification codes, vertical alignments, 657 colour names, fonts 1-10)"]

BORDERS = ["single", "double", "thick", "dotted", "dashed", "small-dash", "dash-dotted", "dash-dot-dotted",
           "triple", "wavy", "double-wavy", "striped", "embossed", "engraved", "frame", ""]
COLORS = ["red", "blue", "gray50", "", "black", "darkorange"]
KINDS = {
    "border": (BORDERS, ["solid", "Single", "dash", "none", " single"]),
    "color": (COLORS, ["notacolor", "Red", "#ff0000", "grey101"]),
    "font": (list(range(1, 11)), [0, 11, -1, 100]),
    "format": (["", "b", "i", "u", "s", "bi", "^", "_"], ["x", "bx", "B", "bold"]),
    "just": (["l", "c", "r", "d", "j", ""], ["x", "L", "left", "cc"]),
    "cjust": (["l", "c", "r", "d", "j"], ["x", "L", "center"]),
    "vjust": (["top", "center", "bottom"], ["middle", "Top", "t"]),
    "posint": ([1, 15, 30], [0, -1, -15]),
    "posfloat": ([0.15, 1.0, 2.5], [0, -0.5, 0.0, -3]),
    "size": ([6, 9, 12.5], [0, -9, -0.5]),
}
TABLE_FIELDS = {
    **{f"border_{s}": "border" for s in ("left", "right", "top", "bottom", "first", "last")},
    **{f"border_color_{s}": "color" for s in ("left", "right", "top", "bottom", "first", "last")},
    "text_color": "color", "text_background_color": "color", "text_font": "font", "text_format": "format",
    "text_justification": "just", "cell_justification": "cjust", "cell_vertical_justification": "vjust",
    "border_width": "posint", "cell_height": "posfloat", "text_font_size": "size", "col_rel_width": "posfloat",
}
TEXT_FIELDS = {"text_color": "color", "text_background_color": "color", "text_font": "font",
               "text_format": "format", "text_justification": "just", "text_font_size": "size"}
TABLE_CLASSES = ("RTFBody", "RTFColumnHeader", "RTFFootnote", "RTFSource")
TEXT_CLASSES = ("RTFTitle", "RTFSubline", "RTFPageHeader", "RTFPageFooter")
PAGE_SCALARS = {
    "orientation": (["portrait", "landscape"], ["Portrait", "diag", "", "upright"]),
    "border_first": (BORDERS, ["solid", "Double", "none"]),
    "border_last": (BORDERS, ["solid", "Double", "none"]),
    "page_title": (["first", "last", "all"], ["every", "First", "", "none"]),
    "page_footnote": (["first", "last", "all"], ["every", "Last", "", "none"]),
    "page_source": (["first", "last", "all"], ["every", "ALL", "", "none"]),
    "width": ([8.5, 11.0], [0, -1, -8.5]),
    "height": ([11.0, 8.5], [0, -1, -0.01]),
    "nrow": ([1, 40], [0, -1, -40]),
    "col_width": ([6.25, 2.0], [0, -1, -6.25]),
}
FIGURE_SCALARS = {"fig_align": (["left", "center", "right"], ["middle", "Left", "c"]),
                  "fig_pos": (["before", "after"], ["top", "After", ""])}
DOC_RULES = ("group_by_missing", "page_by_missing", "subline_by_missing", "multi_section_column_missing", "new_page_without_page_by",
             "df_and_figure", "neither_df_nor_figure", "multi_body_not_list", "multi_length_mismatch",
             "multi_nested_header_mismatch", "figure_missing_file", "margin_length", "paper_no_wider_than_margins")


def forms_for(cls, field):
    if field == "col_rel_width":
        return ("scalar", "flat")
    if cls in TABLE_CLASSES:
        if field.startswith("border_color_"):
            return ("scalar", "flat", "nested", "tuple")
        return ("scalar", "flat", "nested", "tuple")
    return ("scalar", "flat", "nested")


def shapes(form, maxr=3, maxc=3):
    if form == "scalar":
        yield (1, 1), (0, 0)
    elif form == "flat":
        for c in range(1, maxc + 1):
            for j in range(c):
                yield (1, c), (0, j)
    elif form == "tuple":
        for r in range(1, maxr + 1):
            for i in range(r):
                yield (r, 1), (i, 0)
    else:
        for r in range(1, maxr + 1):
            for c in range(1, maxc + 1):
                for i in range(r):
                    for j in range(c):
                        yield (r, c), (i, j)


def enumerate_cases(tier):
    reps = 2 if tier == "quick" else 4
    for cls in TABLE_CLASSES:
        for field, kind in TABLE_FIELDS.items():
            legal, illegal = KINDS[kind]
            for form in forms_for(cls, field):
                for shape, pos in shapes(form):
                    for k, bad in enumerate(illegal[:reps]):
                        yield {"cls": cls, "field": field, "kind": kind, "form": form, "shape": list(shape),
                               "pos": list(pos), "bad": bad, "fill": [legal[(k + i) % len(legal)] for i in range(shape[0] * shape[1])]}
    for cls in TEXT_CLASSES:
        for field, kind in TEXT_FIELDS.items():
            legal, illegal = KINDS[kind]
            for form in forms_for(cls, field):
                for shape, pos in shapes(form):
                    for k, bad in enumerate(illegal[:reps]):
                        yield {"cls": cls, "field": field, "kind": kind, "form": form, "shape": list(shape),
                               "pos": list(pos), "bad": bad, "fill": [legal[(k + i) % len(legal)] for i in range(shape[0] * shape[1])]}
    for field, (legal, illegal) in PAGE_SCALARS.items():
        for bad in illegal:
            yield {"cls": "RTFPage", "field": field, "kind": "page", "form": "scalar", "shape": [1, 1], "pos": [0, 0],
                   "bad": bad, "fill": [legal[0]]}
    for field, (legal, illegal) in FIGURE_SCALARS.items():
        for bad in illegal:
            yield {"cls": "RTFFigure", "field": field, "kind": "figure", "form": "scalar", "shape": [1, 1],
                   "pos": [0, 0], "bad": bad, "fill": [legal[0]]}
    for rule in DOC_RULES:
        for variant in range(24 if rule == "multi_section_column_missing" else 8 if rule in ("margin_length", "figure_missing_file", "df_and_figure") else 4):
            yield {"cls": "RTFDocument", "field": rule, "kind": "doc", "form": "rule", "shape": [1, 1],
                   "pos": [variant, 0], "bad": None, "fill": []}


@st.composite
def _random_case(draw):
    group = draw(st.sampled_from(["table"] * 6 + ["text"] * 3 + ["page", "figure", "doc"]))
    if group in ("table", "text"):
        cls = draw(st.sampled_from(TABLE_CLASSES if group == "table" else TEXT_CLASSES))
        fields = TABLE_FIELDS if group == "table" else TEXT_FIELDS
        field = draw(st.sampled_from(sorted(fields)))
        kind = fields[field]
        legal, illegal = KINDS[kind]
        form = draw(st.sampled_from(forms_for(cls, field)))
        r = draw(st.integers(1, 4)) if form in ("nested", "tuple") else 1
        c = draw(st.integers(1, 5)) if form in ("nested", "flat") else 1
        pos = [draw(st.integers(0, r - 1)), draw(st.integers(0, c - 1))]
        if kind in ("posint",):
            bad = draw(st.one_of(st.sampled_from(illegal), st.integers(-1000, 0)))
        elif kind in ("posfloat", "size"):
            bad = draw(st.one_of(st.sampled_from(illegal), st.integers(-1000, 0),
                                 st.floats(-1000, 0, allow_nan=False)))
        elif kind == "font":
            bad = draw(st.one_of(st.sampled_from(illegal), st.integers(-50, 0), st.integers(11, 500)))
        else:
            bad = draw(st.one_of(st.sampled_from(illegal),
                                 st.text(alphabet="abcdxyzLRC-", min_size=1, max_size=8).filter(
                                     lambda s: s not in legal and (kind != "format" or any(ch not in "bius^_" for ch in s)))))
        fill = [draw(st.sampled_from(legal)) for _ in range(r * c)]
        return {"cls": cls, "field": field, "kind": kind, "form": form, "shape": [r, c], "pos": pos, "bad": bad, "fill": fill}
    if group == "page":
        field = draw(st.sampled_from(sorted(PAGE_SCALARS)))
        legal, illegal = PAGE_SCALARS[field]
        if isinstance(legal[0], str):
            bad = draw(st.one_of(st.sampled_from(illegal), st.text(alphabet="abcfilnprst", min_size=1, max_size=9).filter(lambda s: s not in legal)))
        else:
            bad = draw(st.one_of(st.sampled_from(illegal), st.integers(-100, 0), st.floats(-100, 0, allow_nan=False)))
            if field == "nrow":
                bad = int(bad)
        return {"cls": "RTFPage", "field": field, "kind": "page", "form": "scalar", "shape": [1, 1], "pos": [0, 0],
                "bad": bad, "fill": [draw(st.sampled_from(legal))]}
    if group == "figure":
        field = draw(st.sampled_from(sorted(FIGURE_SCALARS)))
        legal, illegal = FIGURE_SCALARS[field]
        return {"cls": "RTFFigure", "field": field, "kind": "figure", "form": "scalar", "shape": [1, 1], "pos": [0, 0],
                "bad": draw(st.sampled_from(illegal)), "fill": [draw(st.sampled_from(legal))]}
    return {"cls": "RTFDocument", "field": draw(st.sampled_from(DOC_RULES)), "kind": "doc", "form": "rule",
            "shape": [1, 1], "pos": [draw(st.integers(0, 23)), 0], "bad": None, "fill": []}


def strategy(tier):
    return _random_case()


def budget(tier):
    return 1500 if tier == "quick" else 8000


def make_value(case, use_bad):
    r, c = case["shape"]
    vals = list(case["fill"])
    if use_bad:
        vals[case["pos"][0] * c + case["pos"][1]] = case["bad"]
    form = case["form"]
    if form == "scalar":
        return vals[0]
    if form == "flat":
        return vals[:c]
    if form == "tuple":
        return tuple(vals[:r])
    return [vals[i * c:(i + 1) * c] for i in range(r)]


def _png(path):
    with open(path, "wb") as f:
        f.write(b"\x89PNG\r\n\x1a\n" + (13).to_bytes(4, "big") + b"IHDR" + (3).to_bytes(4, "big") + (2).to_bytes(4, "big") + b"\x08\x02\x00\x00\x00" + b"\0" * 8)
    return path


def doc_rule(rule, variant, bad: bool):
    """Returns a thunk constructing the document (bad or control version)."""
    import polars as pl
    import rtflite as rtf

    work = os.environ.get("VERIF_WORK") or os.environ.get("TMPDIR") or "."
    df = pl.DataFrame({"a": ["x", "x", "y"], "b": [1, 2, 3], "c": ["p", "q", "r"]})
    good_cols = ["a", "c", "b"]
    if rule in ("group_by_missing", "page_by_missing", "subline_by_missing"):
        key = rule.split("_missing")[0]
        missing = ["zz", "A", "a ", ""][variant % 4]
        val = {0: missing, 1: [missing], 2: [good_cols[1], missing], 3: [missing, good_cols[1]]}[variant % 4] if bad else \
            {0: "a", 1: ["a"], 2: ["c", "a"], 3: ["a", "c"]}[variant % 4]
        return lambda: rtf.RTFDocument(df=df, rtf_body=rtf.RTFBody(**{key: val}))
    if rule == "multi_section_column_missing":
        # the column exists in one section's frame but not in another one's; the body may be one shared object
        key = ("group_by", "page_by", "subline_by")[variant % 3]
        shared = (variant // 3) % 2 == 0
        other = pl.DataFrame({"x": ["x", "x", "y"], "b": [1, 2, 3]})
        b1 = rtf.RTFBody(**{key: ["a"]})
        b2 = b1 if shared else rtf.RTFBody(**{key: ["a"]})
        frames = [df, other] if bad else [df, df.clone()]
        where = (variant // 8) % 3          # 0: the section lacking the column is the last one, 1: the first, 2: the middle one
        if bad and where:
            frames = [other, df] if where == 1 and variant % 2 == 0 else [other, df, df.clone()] if where == 1 else [df, other, df.clone()]
            bodies = [b1, b2] + ([b1 if shared else rtf.RTFBody(**{key: ["a"]})] if len(frames) == 3 else [])
            return lambda: rtf.RTFDocument(df=frames, rtf_body=bodies)
        if variant % 2 and bad:
            frames = [df, df.clone(), other]
            return lambda: rtf.RTFDocument(df=frames, rtf_body=[b1, b2, b1 if shared else rtf.RTFBody(**{key: ["a"]})])
        return lambda: rtf.RTFDocument(df=frames, rtf_body=[b1, b2])
    if rule == "new_page_without_page_by":
        if bad:
            extra = [{}, {"group_by": ["a"]}, {"subline_by": ["a"]}, {"pageby_row": "first_row"}][variant % 4]
            return lambda: rtf.RTFBody(new_page=True, **extra)
        return lambda: rtf.RTFBody(new_page=True, page_by=["a"])
    if rule == "df_and_figure":
        p = _png(os.path.join(work, f"c19fig_{os.getpid()}.png"))
        if bad:
            if variant % 8 >= 4:
                # a DataFrame together with an RTFFigure that names no file at all
                fig = rtf.RTFFigure() if variant % 2 == 0 else rtf.RTFFigure(figures=[])
                return lambda: rtf.RTFDocument(df=df if variant % 4 < 6 else [df], rtf_figure=fig)
            return lambda: rtf.RTFDocument(df=df if variant % 2 == 0 else [df], rtf_figure=rtf.RTFFigure(figures=p),
                                           **({} if variant % 2 == 0 else {"rtf_body": [rtf.RTFBody()]}))
        return lambda: rtf.RTFDocument(rtf_figure=rtf.RTFFigure(figures=p))
    if rule == "neither_df_nor_figure":
        if bad:
            kw = [{}, {"rtf_title": rtf.RTFTitle(text="t")}, {"rtf_body": rtf.RTFBody()}, {"df": None}][variant % 4]
            return lambda: rtf.RTFDocument(**kw)
        return lambda: rtf.RTFDocument(df=df)
    if rule == "multi_body_not_list":
        if bad:
            return lambda: rtf.RTFDocument(df=[df, df][: 1 + variant % 2], rtf_body=rtf.RTFBody())
        return lambda: rtf.RTFDocument(df=[df, df], rtf_body=[rtf.RTFBody(), rtf.RTFBody()])
    if rule == "multi_length_mismatch":
        n_df, n_body = [(2, 1), (1, 2), (3, 2), (2, 3)][variant % 4]
        if bad:
            return lambda: rtf.RTFDocument(df=[df] * n_df, rtf_body=[rtf.RTFBody() for _ in range(n_body)])
        return lambda: rtf.RTFDocument(df=[df] * n_df, rtf_body=[rtf.RTFBody() for _ in range(n_df)])
    if rule == "multi_nested_header_mismatch":
        n_df, n_h = [(2, 1), (2, 3), (3, 2), (3, 4)][variant % 4]
        mk = lambda k: [[rtf.RTFColumnHeader(text=["A", "B", "C"])] for _ in range(k)]
        if bad:
            return lambda: rtf.RTFDocument(df=[df] * n_df, rtf_body=[rtf.RTFBody() for _ in range(n_df)], rtf_column_header=mk(n_h))
        return lambda: rtf.RTFDocument(df=[df] * n_df, rtf_body=[rtf.RTFBody() for _ in range(n_df)], rtf_column_header=mk(n_df))
    if rule == "figure_missing_file":
        p = _png(os.path.join(work, f"c19ok_{os.getpid()}.png"))
        missing = os.path.join(work, "does", "not", "exist.png")
        if variant % 8 >= 4:
            # history: the file existed and was used by an earlier RTFFigure (and encode), then it was removed
            gone = os.path.join(work, f"c19gone{variant % 4}_{os.getpid()}.png")      # per worker process: the shards share the work directory
            val = [gone, [gone], [p, gone], [p, gone, p]][variant % 4]

            def build():
                _png(gone)
                first = rtf.RTFFigure(figures=gone)
                rtf.RTFDocument(rtf_figure=first).rtf_encode()
                if bad:
                    os.remove(gone)
                return rtf.RTFFigure(figures=val)
            return build
        val = [missing, [missing], [p, missing], [p, missing, p]][variant % 4] if bad else [p, [p], [p, p], [p, p, p]][variant % 4]
        return lambda: rtf.RTFFigure(figures=val)
    if rule == "margin_length":
        n = [0, 5, 7, 1, 2, 3, 4, 8][variant % 8]
        return lambda: rtf.RTFPage(margin=[1.0] * (n if bad else 6))
    if rule == "paper_no_wider_than_margins":
        # the table width derived from a custom paper width (width - 2.25 in portrait, - 2.5 in landscape) must be positive
        w, orient = [(2.25, "portrait"), (1, "portrait"), (2.5, "landscape"), (0.5, "landscape")][variant % 4]
        if bad:
            return lambda: rtf.RTFPage(width=w, orientation=orient)
        return lambda: rtf.RTFPage(width=w + 3, orientation=orient) if variant % 2 else rtf.RTFPage(width=w, orientation=orient, col_width=0.5)
    raise KeyError(rule)


def constructor(case, use_bad):
    import rtflite as rtf

    cls = case["cls"]
    if cls == "RTFDocument":
        return doc_rule(case["field"], case["pos"][0], use_bad)
    value = make_value(case, use_bad)
    if cls == "RTFFigure":
        work = os.environ.get("VERIF_WORK") or os.environ.get("TMPDIR") or "."
        p = _png(os.path.join(work, f"c19f_{os.getpid()}.png"))
        return lambda: rtf.RTFFigure(figures=p, **{case["field"]: value})
    kw = {case["field"]: value}
    if cls in ("RTFFootnote", "RTFSource", "RTFTitle", "RTFSubline", "RTFPageFooter"):
        kw["text"] = "some text"
    return lambda: getattr(rtf, cls)(**kw)


def check(case) -> Result:
    res = Result()
    res.checks = 2
    expected = FileNotFoundError if case["field"] == "figure_missing_file" else ValueError
    try:
        obj = constructor(case, True)()
        res.fail("accepts_invalid", f"{case['cls']}.{case['field']}", f"constructed {type(obj).__name__} from {describe(case)}")
    except expected:
        pass
    except Exception as e:
        res.fail("wrong_exception", f"{case['cls']}.{case['field']}:{type(e).__name__}", f"{str(e)[:120]} from {describe(case)}")
    try:
        constructor(case, False)()
    except Exception as e:
        res.fail("rejects_valid", f"{case['cls']}.{case['field']}:{type(e).__name__}", f"{str(e)[:160]} control of {describe(case)}")
    first = case["pos"] == [0, 0]
    res.labels = ["cls=" + case["cls"], "form=" + case["form"], "kind=" + case["kind"], "pos=first" if first else "pos=later"]
    res.nontrivial = (not first) or case["form"] == "nested"
    return res


def describe(case):
    if case["cls"] == "RTFDocument":
        return f"rule {case['field']} variant {case['pos'][0]}"
    return f"{case['field']}={make_value(case, True)!r}"
