"""C05 - every data row sits under its own group heading on its own page."""
from __future__ import annotations

import itertools
import re

from hypothesis import strategies as st

from .. import pgen
from .. import recipe as R
from ..common import pages_label, run_recipe
from ..engine import Result
from .. import findings as findings_mod
from ..pagemodel import COORD, analyze, group_values, headings_brought, reservation, row_weight
from ..model import classify

ID = "C05"
LEVEL = "exploration"
RULE = ("Sorted group-key sequences (every prefix key one contiguous run) with 1-3 page_by levels and/or subline_by, "
        "group runs sized capacity x {1/4,1/2,1,3/2,2} +-1 so that groups start, end and continue at every offset "
        "within a page, nrow 3-30, new_page on/off, pageby_row column/first_row, pageby_header on/off, all header "
        "modes, '-----' divider runs at any level; plus an exhaustive sweep over all compositions of 8 rows into "
        "outer/inner runs x capacity 2..6. Oracle (reference walk over the parsed page): every data row has, for "
        "each non-divider level, a most-recent heading on ITS page equal to its value and rendered after the "
        "outer level's heading; every heading is directly followed by an inner heading or a data row whose value "
        "it names; per level the number of headings equals the number of prefix-key runs on the page; no heading "
        "reads '-----' and no row is lost; with subline_by every page has exactly one heading paragraph naming "
        "its single group; a break on a page with divider rows is justified by the page's fill (a divider never costs a "
        "line). 30% of the generated tables use numeric keys counted from 0 (int / float columns). Non-trivial = a group continues across a page break or an inner level changes "
        "inside a page.")
ASSUMPTIONS = ["headings are recognised by their @G<level>: / @B<level>: tags (numeric keys: by display texts that are disjoint between levels)", "null group values are outside this property's domain"]

HEAD = re.compile(r"^@G(\d+):")


def numeric_keys(rec):
    """The same table with numeric group keys counted from 0: level 0 -> int k, level 1 -> float k, level 2 -> int 1000+k
    (a '-----' run becomes a group of its own, 500+run index).  The display texts of different levels stay disjoint, so
    a heading row is attributed to its level by its text."""
    sec = rec["sections"][0]
    body = sec["body"]
    for key in ("page_by", "subline_by"):
        for lvl, name in enumerate(R.as_list(body.get(key))):
            col = R.column(sec, name)
            out, prev, runs = [], object(), 0
            for v in col["values"]:
                if v != prev:
                    runs += 1
                prev = v
                k = 500 + runs if v == "-----" else int(v.rsplit("v", 1)[1])
                out.append([k, float(k), 1000 + k][lvl])
            col["values"] = out
            col["dtype"] = "float" if lvl == 1 else "int"
    rec["numeric_keys"] = True
    return rec


@st.composite
def _numeric(draw, base):
    rec = draw(base)
    if draw(st.integers(0, 9)) < 3:
        rec = numeric_keys(rec)
    return rec


def strategy(tier):
    return st.one_of(
        _numeric(pgen.pag_recipe(strategies=("page_by", "page_by", "page_by_new", "subline"), max_rows=40, nrow_range=(3, 30), levels_max=3,
                                 dividers=True, subline_with_page_by=True, pageby_rows=("column", "first_row"), max_height=2)),
        pgen.pag_recipe(strategies=("page_by",), max_rows=30, nrow_range=(3, 9), levels_max=2, dividers=True, max_height=1, fn_src=False),
    )


def budget(tier):
    return 130 if tier == "quick" else 3000


def compositions(n):
    for cuts in itertools.product((0, 1), repeat=n - 1):
        runs, cur = [], 1
        for c in cuts:
            if c:
                runs.append(cur)
                cur = 1
            else:
                cur += 1
        runs.append(cur)
        yield runs


def enumerate_cases(tier):
    n = 8
    k = 0
    for outer in compositions(n):
        for cap in range(2, 7):
            k += 1
            if tier == "quick" and k % 5:
                continue
            # inner level: split every outer run into runs of length <= 2
            g0, g1 = [], []
            c1 = 0
            for oi, r in enumerate(outer):
                g0 += [f"@G0:v{oi}"] * r
                left = r
                while left > 0:
                    step = min(2, left)
                    g1 += [f"@G1:v{c1}"] * step
                    c1 += 1
                    left -= step
            for levels, new_page in ((1, False), (2, False), (2, True)):
                rec = pgen.make_table([1] * n, [g0, g1][:levels], ndata=1, page_by_levels=levels, new_page=new_page,
                                      pageby_row="first_row" if new_page else None, header="explicit", nrow=cap + 1)
                rec["strategy"] = "page_by_new" if new_page else "page_by"
                yield rec


    # three page_by levels over a small value pool: every sorted sequence of 5 rows over the 8 keys {0,1}^3, so that an outer
    # level changes while one or both inner levels keep the label they had on the row above, mid-page and at page tops
    keys3 = list(itertools.product((0, 1), repeat=3))
    for si, seq in enumerate(itertools.combinations_with_replacement(range(8), 5)):
        for ni, nrow in enumerate((20, 6, 9)):
            if tier == "quick" and (si + ni) % 3:
                continue
            groups = [[f"@G{lvl}:v{keys3[q][lvl]}" for q in seq] for lvl in range(3)]
            rec = pgen.make_table([1] * 5, groups, ndata=1, page_by_levels=3, new_page=False, header="explicit", nrow=nrow)
            rec["strategy"] = "page_by"
            yield rec
    # subline_by / page_by over two columns whose different key tuples read alike once joined ('1'+'11' / '11'+'1', 'A'+'BC' /
    # 'AB'+'C', separators inside the values): untagged keys, headings recognised by their display text
    for pairs in ([("1", "11"), ("11", "1"), ("11", "2")], [("A", "BC"), ("AB", "C"), ("B", "C")], [("a", "b|c"), ("a|b", "c")],
                  [("x", "y z"), ("x y", "z"), ("x y", "zz")], [("1", "0"), ("1", "01"), ("10", "1")]):
        for per in (1, 2, 3):
            n = per * len(pairs)
            c0 = [p[0] for p in pairs for _ in range(per)]
            c1 = [p[1] for p in pairs for _ in range(per)]
            rec = pgen.make_table([1] * n, None, ndata=2, subline=[c0, c1], header="explicit", nrow=12)
            rec["strategy"], rec["numeric_keys"] = "subline", True
            yield rec
            if not set(c0) & set(c1):        # heading rows are told apart by their text: the two levels must not share a value
                rec = pgen.make_table([1] * n, [c0, c1], ndata=2, page_by_levels=2, new_page=False, header="explicit", nrow=30)
                rec["strategy"], rec["numeric_keys"] = "page_by", True
                yield rec


def check(case) -> Result:
    res = Result()
    out = run_recipe(case)
    if out.build_error:
        res.harness_error = "recipe does not build: " + out.build_error
        return res
    if out.encode_error:
        res.excluded = "encode_raised:" + out.encode_error[0]
        return res
    if not out.doc.ok():
        res.excluded = "malformed_output"
        return res
    sec = case["sections"][0]
    body = sec.get("body", {})
    n = R.nrows(sec)
    pb_keys, sb_keys = group_values(case)
    levels = len(R.as_list(body.get("page_by")))
    spanning = R.spanning(body)
    pages = classify(out.doc)
    # headings are attributed to their level by the @G<level>: tag, or (numeric keys) by the display text of the level's values
    hmap = {}
    subtexts = set()
    if case.get("numeric_keys"):
        for lvl, name in enumerate(R.as_list(body.get("page_by"))):
            for v in R.column(sec, name)["values"]:
                hmap[str(v)] = lvl
        subtexts = {", ".join(str(v) for v in k) for k in sb_keys if k}
        for items in pages:
            for it in items:
                if it.role == "data" and len(it.texts) == 1 and it.texts[0] in hmap and spanning:
                    it.role = "heading"
                elif it.role == "para?" and it.texts[0] in subtexts:
                    it.role = "sublinehead"

    def level_of(t):
        m = HEAD.match(t)
        if m:
            return int(m.group(1))
        return hmap.get(t)

    # physical stranding: a heading that ends within the nrow lines of a page while the row it introduces does not
    # (each table row weighted by an independent lower bound on its lines); the open auto-header finding of C03
    # shifts every line by one and is allowed for
    nrow = case["page"]["nrow"]
    slack = 1 if any(f.sig == "budget/auto_header_unreserved" for f in findings_mod.load("C03")) else 0
    for pn, items in enumerate(pages):
        line = 0
        auto = 0
        prev_heading_end = None
        for it in items:
            if it.role in ("header", "heading", "data", "fnrow", "srcrow"):
                w = row_weight(it.block)
                if it.role == "header" and it.texts and it.texts[0].startswith("@N"):
                    auto += 1
                line += w
            elif it.role == "sublinehead":
                line += 1
            else:
                continue
            budget = nrow + (auto if slack else 0)
            if it.role == "data" and prev_heading_end is not None and prev_heading_end <= budget < line and sum(1 for x in items if x.role == "data") >= 2:
                res.fail("stranded", "heading_on_last_line_row_beyond_nrow", f"page {pn + 1}: heading ends on line {prev_heading_end}, its row on line {line}, nrow {nrow}")
            prev_heading_end = line if it.role == "heading" else None
    seen_rows = 0
    continued = inner_change = False
    prev_last = None
    for pn, items in enumerate(pages):
        recent = {}          # level -> (text, position)
        rows_here = []
        subheads = [it for it in items if it.role == "sublinehead"]
        for pos, it in enumerate(items):
            if it.role == "heading":
                t = it.texts[0]
                res.checks += 1
                if t == "-----" or t.startswith("-----"):
                    res.fail("divider", "heading_rendered_for_divider", f"page {pn + 1}")
                lvl = level_of(t)
                if lvl is None:
                    continue
                if not spanning:
                    res.fail("heading", "spanning_row_in_column_mode", f"page {pn + 1}: {t}")
                recent[lvl] = (t, pos)
                nxt = items[pos + 1] if pos + 1 < len(items) else None
                if nxt is None or nxt.role not in ("heading", "data"):
                    res.fail("stranded", f"level{lvl}", f"page {pn + 1}: heading {t!r} followed by {nxt.role if nxt else 'end of page'}")
                elif nxt.role == "heading":
                    l2 = level_of(nxt.texts[0])
                    if l2 is not None and l2 <= lvl:
                        res.fail("stranded", f"level{lvl}_followed_by_outer_or_same", f"page {pn + 1}: {t!r} then {nxt.texts[0]!r}")
            elif it.role == "data":
                idx = None
                for t in it.texts:
                    m = COORD.match(t)
                    if m:
                        idx = int(m.group(1))
                        break
                if idx is None or idx >= n:
                    continue
                seen_rows += 1
                rows_here.append(idx)
                if spanning:
                    key = pb_keys[idx]
                    for lvl, v in enumerate(key):
                        res.checks += 1
                        if v == "-----":
                            continue
                        got = recent.get(lvl)
                        if got is None:
                            res.fail("missing_heading", f"level{lvl}/" + ("page_top" if len(rows_here) == 1 else "mid_page"),
                                     f"page {pn + 1} row {idx}: no level-{lvl} heading for {v!r} on this page")
                        elif got[0] != str(v):
                            res.fail("wrong_heading", f"level{lvl}", f"page {pn + 1} row {idx}: under {got[0]!r}, belongs to {v!r}")
                        elif lvl > 0 and key[lvl - 1] != "-----" and (lvl - 1) in recent and recent[lvl - 1][1] > got[1]:
                            res.fail("order", f"level{lvl}_before_outer", f"page {pn + 1} row {idx}")
        # heading counts per level = number of prefix-key runs among the page's rows
        if spanning and rows_here:
            for lvl in range(levels):
                # upper bound: one heading per run of the prefix key (levels <= lvl);
                # lower bound: a new heading is certainly required when the level's own value changes or an
                # outer level changes to another NON-divider value (an outer level turning into a divider
                # produces no heading itself; whether the inner heading is then repeated is left open)
                hi = lo = 0
                prev = None
                for i in rows_here:
                    k = pb_keys[i]
                    if k[lvl] != "-----":
                        if prev is None or prev[: lvl + 1] != k[: lvl + 1]:
                            hi += 1
                        if prev is None or prev[lvl] != k[lvl] or any(prev[o] != k[o] and k[o] != "-----" for o in range(lvl)):
                            lo += 1
                    prev = k
                got = sum(1 for it in items if it.role == "heading" and level_of(it.texts[0]) == lvl)
                res.checks += 1
                if not (lo <= got <= hi):
                    res.fail("heading_count", f"level{lvl}/" + ("too_many" if got > hi else "too_few"),
                             f"page {pn + 1}: {got} level-{lvl} headings, expected {lo}..{hi} (rows {rows_here[:8]})")
            if prev_last is not None and pb_keys[prev_last][0] == pb_keys[rows_here[0]][0] and pb_keys[rows_here[0]][0] != "-----":
                continued = True
            for a, b in zip(rows_here, rows_here[1:]):
                if levels > 1 and pb_keys[a][0] == pb_keys[b][0] and pb_keys[a] != pb_keys[b]:
                    inner_change = True
        # subline_by
        if sb_keys and sb_keys[0] and rows_here:
            res.checks += 1
            want = {", ".join(str(v) for v in sb_keys[i]) for i in rows_here}
            if len({tuple(sb_keys[i]) for i in rows_here}) != 1:
                res.fail("subline_heading", "several_groups_on_one_page", f"page {pn + 1}: rows of {sorted({tuple(sb_keys[i]) for i in rows_here})[:3]}")
            elif len(subheads) != 1:
                res.fail("subline_heading", f"count{len(subheads)}", f"page {pn + 1}: {len(subheads)} heading paragraphs")
            elif len(want) != 1 or subheads[0].texts[0] != next(iter(want)):
                res.fail("subline_heading", "wrong_group", f"page {pn + 1}: heading {subheads[0].texts[0]!r}, rows belong to {sorted(want)}")
            if prev_last is not None and sb_keys[prev_last] == sb_keys[rows_here[0]]:
                continued = True
        if rows_here:
            prev_last = rows_here[-1]
    # a divider never costs a data row: a break next to divider rows must be justified by the page's fill
    # (default font and calibrated heights, so the line counts are unambiguous; same accounting as C04)
    if spanning and not case.get("numeric_keys") and any("-----" in k for k in pb_keys):
        pm = analyze(out.doc)
        if [d.index for p in pm for d in p.data] == list(range(n)):
            Rsv = reservation(case)
            new_page = bool(body.get("new_page")) or bool(body.get("subline_by"))
            for a, b in zip(pm, pm[1:]):
                if not a.data or not b.data:
                    continue
                i, j = a.data[-1].index, b.data[0].index
                if not ("-----" in pb_keys[j] or any("-----" in pb_keys[d.index] for d in a.data)):
                    continue
                res.checks += 1
                forced = (bool(sb_keys[i]) and sb_keys[i] != sb_keys[j]) or (new_page and pb_keys[i] != pb_keys[j])
                need = b.data[0].weight + headings_brought(pb_keys[i], pb_keys[j])
                if not forced and a.body_fill() + need <= nrow - Rsv:
                    res.fail("divider", "costs_a_row", f"break after row {i}: page {a.number + 1} holds {a.body_fill()} lines and row {j} needs {need}, "
                             f"nrow {nrow} - reserved {Rsv}; keys on the page {sorted({pb_keys[d.index] for d in a.data})[:4]}")
    res.checks += 1
    if seen_rows != n:
        res.fail("divider", "rows_lost_or_extra", f"{seen_rows} data rows rendered for {n} input rows")
    has_div = any("-----" in k for k in pb_keys)
    res.labels = [pages_label(len(pages)), "strategy=" + case.get("strategy", "?"), f"levels={levels}", "dividers" if has_div else "no_dividers",
                  "spanning" if spanning else "column_mode", "continued" if continued else "not_continued",
                  "inner_change" if inner_change else "no_inner_change", "numeric_keys" if case.get("numeric_keys") else "text_keys"]
    res.nontrivial = continued or inner_change
    return res
