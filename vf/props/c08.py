"""C08 - all rows of a table share one right edge and proportional columns."""
from __future__ import annotations

import copy
from dataclasses import replace
from fractions import Fraction

from hypothesis import strategies as st

from .. import gen
from .. import recipe as R
from ..common import innermost_frame, pages_label
from ..engine import Result
from ..model import classify
from ..rtfread import read

ID = "C08"
LEVEL = "exploration"
RULE = ("Hypothesis-generated tables with 1-12 columns, col_rel_width in [0.2,10] (floats, ints, scalar), col_width "
        "in [2,12] in, both orientations and custom paper; headers default / explicit (inheriting) / explicit "
        "with own widths / multi-row spanning; page_by and subline_by removing 1-3 columns at any position; "
        "footnote/source as table; 2-4 section documents with different column counts (sections may use page_by / "
        "subline_by themselves; nested and flat header lists); and a HISTORY "
        "dimension: the target's RTFBody / RTFColumnHeader / RTFFootnote / RTFSource objects were first used (constructed + encoded) by a "
        "document with a different column count and table width. Oracle on parsed \\cellx: every row ends within 1 twip of "
        "col_width x 1440; data-row boundaries are W*cum_j/sum within 1 twip (exact rational reference); "
        "inheriting header rows equal the data boundaries cell by cell; own-width header rows are proportional "
        "to their own widths. Non-trivial = >=1 removed column, or a multi-row header, or a reused component.")
ASSUMPTIONS = ["rows are attributed to sections by sentinel tags in order of appearance",
               "col_width default = page width - 2.25 in (portrait) / - 2.5 in (landscape), as documented by the RTFPage defaults"]

CFG = gen.Cfg(max_cols=12, max_rows=10, nrow_range=(2, 30), allow_group_by=False, attrs=False, rel_width_floats=True,
              col_width_range=(2.0, 12.0), max_page_by=3, long_text=0.0, min_plain_cols=1)


@st.composite
def _with_history(draw):
    rec = draw(gen.table_recipe(replace(CFG, allow_page_by=False, allow_subline_by=False, max_cols=8)))
    # prior document: other column count, uses the SAME body / header objects
    k = draw(st.integers(1, 8))
    rec["prior"] = {"ncol": k, "share": draw(st.sampled_from([["body"], ["header"], ["body", "header"], ["footnote", "source"],
                                                              ["body", "footnote", "source"]])),
                    "encode": draw(st.booleans())}
    if "footnote" in rec["prior"]["share"]:
        # table-rendered footnote / source objects that an earlier document (default table width) has used
        for key, tag in (("footnote", "@F0"), ("source", "@S0")):
            if rec.get(key) is None and draw(st.booleans()):
                rec[key] = {"text": [tag]}
            if rec.get(key) is not None and draw(st.integers(0, 9)) < 7:
                rec[key]["as_table"] = True
        rec["prior"]["encode"] = draw(st.integers(0, 9)) < 8
    return rec


def strategy(tier):
    return st.one_of(gen.table_recipe(CFG), gen.table_recipe(CFG), gen.multi_recipe(replace(CFG, max_cols=7)), _with_history(),
                     # sections that use page_by / subline_by themselves (new pages inside a multi-section document)
                     gen.multi_recipe(replace(CFG, max_cols=6, multi_grouping=True)))


def enumerate_cases(tier):
    """Multi-section documents in which every section runs over several pages (repeated headers) and the sections differ in
    column count and widths."""
    def sec(i, ncol, n, widths=None, headers="explicit"):
        cols = [{"name": f"@N{i}x{j}", "dtype": "str", "values": [f"s{i}r{r}c{j}" for r in range(n)]} for j in range(ncol)]
        body = {"col_rel_width": widths} if widths else {}
        hd = [{"text": [f"@H{i}.{c}" for c in range(ncol)]}] if headers == "explicit" else "default"
        return {"df": {"cols": cols}, "body": body, "headers": hd}
    for nrow in (5, 8):
        for shapes in ([(3, [1, 2, 3]), (5, None)], [(5, None), (3, [1, 2, 3]), (2, [3, 1])], [(2, None), (4, [1, 1, 2, 2]), (4, [2, 2, 1, 1])]):
            for headers in ("explicit", "default"):
                yield {"kind": "multi", "page": {"nrow": nrow}, "header_layout": "nested",
                       "sections": [sec(i, nc, 14, w, headers) for i, (nc, w) in enumerate(shapes)]}


def budget(tier):
    return 150 if tier == "quick" else 3500


def col_width_of(case):
    page = case.get("page") or {}
    if page.get("col_width") is not None:
        return page["col_width"]
    orient = page.get("orientation", "portrait")
    width = page.get("width") or (8.5 if orient == "portrait" else 11.0)
    return width - (2.25 if orient == "portrait" else 2.5)


def boundaries(widths, W):
    tot = sum(Fraction(str(w)) for w in widths)
    cum, out = Fraction(0), []
    for w in widths:
        cum += Fraction(str(w))
        out.append(Fraction(str(W)) * 1440 * cum / tot)
    return out


def body_widths(sec):
    names = [c["name"] for c in sec["df"]["cols"]]
    w = sec.get("body", {}).get("col_rel_width")
    if w is None:
        w = [1] * len(names)
    elif len(w) == 1 and len(names) > 1:
        w = list(w) * len(names)
    disp = set(R.displayed_columns(sec))
    if len(w) == len(disp) < len(names):
        return list(w)          # documented form: widths listed for the displayed columns only
    return [x for x, n in zip(w, names) if n in disp]


def build_and_encode(case):
    import polars as pl
    import rtflite as rtf

    prior = case.get("prior")
    rec = {k: v for k, v in case.items() if k != "prior"}
    kw, dfs, files = R.build_kwargs(rec)
    if prior:
        pkw = {"df": pl.DataFrame({f"p{j}": ["x", "y"] for j in range(prior["ncol"])})}
        if "body" in prior["share"]:
            pkw["rtf_body"] = kw["rtf_body"]
        if "header" in prior["share"] and isinstance(kw.get("rtf_column_header"), list) and kw["rtf_column_header"] \
                and all(h.text is None or len(h.text) == prior["ncol"] or h.col_rel_width is not None for h in kw["rtf_column_header"]):
            pkw["rtf_column_header"] = kw["rtf_column_header"]
        for key in ("footnote", "source"):
            if key in prior["share"] and kw.get("rtf_" + key) is not None:
                pkw["rtf_" + key] = kw["rtf_" + key]
        try:
            pdoc = rtf.RTFDocument(**pkw)
            if prior["encode"]:
                pdoc.rtf_encode()
        except Exception:
            pass  # the earlier document's own fate is not this property's business
    doc = rtf.RTFDocument(**kw)
    return doc.rtf_encode()


def check(case) -> Result:
    res = Result()
    try:
        rtf_text = build_and_encode(case)
    except Exception as e:
        if case.get("prior"):
            res.fail("reused_component", f"raises:{type(e).__name__}@{innermost_frame(e)}", str(e)[:200])
            res.labels = ["reused"]
            res.nontrivial = True
            return res
        res.excluded = "encode_raised:" + type(e).__name__
        return res
    d = read(rtf_text)
    if not d.ok():
        res.excluded = "malformed_output"
        return res
    W = col_width_of(case)
    Wt = Fraction(str(W)) * 1440
    pages = classify(d)
    secs = case["sections"]
    # attribute rows to sections: data rows by count, header rows by tags
    data_left = [R.nrows(s) for s in secs]
    si = 0
    multirow = False
    removed = sum(len(R.removed_columns(s)) for s in secs)
    # which section does every data row belong to (rows are rendered section by section, in order)?
    owner, left, cur = {}, [R.nrows(s) for s in secs], 0
    for items in pages:
        for it in items:
            if it.role == "data":
                while cur < len(secs) - 1 and left[cur] == 0:
                    cur += 1
                left[cur] -= 1
                owner[id(it)] = cur
    for items in pages:
        for pos, it in enumerate(items):
            if it.role not in ("header", "heading", "data", "fnrow", "srcrow"):
                continue
            if it.role == "header":
                # a header row labels the data rows below it: the next data row on the page belongs to the header's own section
                sec_h, _ = locate_header(secs, it.texts[0], si)
                nxt = next((x for x in items[pos + 1:] if x.role == "data"), None)
                res.checks += 1
                if sec_h is not None and nxt is not None and R.nrows(secs[sec_h]) > 0 and owner.get(id(nxt)) != sec_h \
                        and len({tuple(h["text"]) for s_ in secs if isinstance(s_.get("headers"), list) for h in s_["headers"] if h and h.get("text")}) \
                        == sum(1 for s_ in secs if isinstance(s_.get("headers"), list) for h in s_["headers"] if h and h.get("text")):
                    res.fail("alignment", "header_of_another_section", f"header {it.texts[:3]} (section {sec_h}) above data rows of section {owner.get(id(nxt))}")
            cells = it.block.cells
            xs = [c.cellx for c in cells]
            res.checks += 1
            if abs(xs[-1] - Wt) > 1:
                res.fail("right_edge", it.role, f"last \\cellx {xs[-1]} vs col_width {W} in = {float(Wt):.1f} (row {it.texts[:3]})")
                continue
            if it.role == "data":
                while si < len(secs) - 1 and data_left[si] == 0:
                    si += 1
                data_left[si] -= 1
                ref = boundaries(body_widths(secs[si]), W)
                res.checks += len(xs)
                if len(xs) != len(ref) or any(abs(x - r) > 1 for x, r in zip(xs, ref)):
                    res.fail("proportional", "data_row", f"\\cellx {xs} vs reference {[round(float(r), 1) for r in ref]}")
            elif it.role == "header":
                t0 = it.texts[0]
                sec_idx, hd = locate_header(secs, t0, si)
                if sec_idx is None:
                    continue
                sec = secs[sec_idx]
                if hd is not None and hd.get("col_rel_width") is not None:
                    if len(hd["col_rel_width"]) == len(xs):
                        ref = boundaries(hd["col_rel_width"], W)
                        if any(abs(x - r) > 1 for x, r in zip(xs, ref)):
                            res.fail("proportional", "header_own_widths", f"\\cellx {xs} vs {[round(float(r), 1) for r in ref]}")
                    if len(secs[sec_idx].get("headers", [])) > 1:
                        multirow = True
                else:
                    bw = body_widths(sec)
                    if len(xs) == len(bw):
                        ref = boundaries(bw, W)
                        if any(abs(x - r) > 1 for x, r in zip(xs, ref)):
                            res.fail("alignment", "inherited_header_vs_data", f"header \\cellx {xs} vs data boundaries {[round(float(r), 1) for r in ref]}")
    res.labels = [pages_label(len(pages)), f"sections={len(secs)}", f"removed_cols={min(removed, 3)}",
                  "reused" if case.get("prior") else "fresh_objects", "multirow_header" if multirow else "single_header",
                  f"ncol={'1-3' if len(secs[0]['df']['cols']) <= 3 else '4-7' if len(secs[0]['df']['cols']) <= 7 else '8-12'}"]
    res.nontrivial = removed >= 1 or multirow or bool(case.get("prior"))
    return res


def locate_header(secs, t0, current):
    """Which section / header spec does a header row starting with text t0 belong to?"""
    if t0.startswith("@N"):
        for i, s in enumerate(secs):
            if any(c["name"] == t0 for c in s["df"]["cols"]):
                return i, None
        return None, None
    order = list(range(current, len(secs))) + list(range(current))
    for i in order:
        hs = secs[i].get("headers")
        if isinstance(hs, list):
            for h in hs:
                if h and h.get("text") and h["text"][0] == t0:
                    return i, h
    return None, None
