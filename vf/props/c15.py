"""C15 - concurrent encodes do not interfere (harness-owned schedules)."""
from __future__ import annotations

import functools
import itertools

from hypothesis import strategies as st

from .. import recipe as R
from ..engine import Result
from ..sched import run_schedule

ID = "C15"
LEVEL = "exploration"
RULE = ("[line level in quick: one preemption at each of the ~1800 LINE events (inside color_service / registry / converter / text_conversion_service) of the small twin's encode] "
        "[two-preemption grids: for 8 ordered pairs built to share something (twin documents with the same coloured title / subline / "
        "page header / footer / footnote but different palette indices, palettes, shared footnote object, conversions, group_by, wrapped headings) "
        "a 10 x 10 (thorough 40 x 40) grid of overlapping, non-nested schedules] "
        "Two and three threads encode documents from a pool of archetypes with different palettes and shapes "
        "(coloured single tables, page_by table, group_by table, multi-section, figure, tables with shared non-ASCII characters, with one heading wrapping differently, with converted LaTeX / shorthand text) under a deterministic "
        "baton scheduler driven by sys.settrace call events inside rtflite. Exhaustive: every schedule with ONE "
        "preemption at every library call boundary for six document pairs and at every third boundary for nine more "
        "pairs incl. a document with itself (thorough: every boundary of all 81 ordered pairs, plus line-level preemption inside color_service.py / registry.py); COLD schedules: for four pairs every schedule that preempts at a call only a "
        "fresh interpreter makes (first-use paths; thorough: also the first occurrence of every call site) runs in a newly spawned "
        "interpreter in which nothing was encoded before; generated: "
        "schedules with 2-3 preemptions and 3 threads drawn by Hypothesis. Oracle: each thread's string equals "
        "the string the same (freshly built) document gives when encoded alone; an exception in a thread is a "
        "failure. Non-trivial = at least one preemption fired while another thread was unfinished, so its "
        "encode ran strictly inside the preempted one; distinct by sha1 of (documents, schedule).")
ASSUMPTIONS = [
    "preemption is explored at rtflite function-call granularity (line granularity in color_service.py and "
    "registry.py in the thorough tier); code inside polars / pydantic / the stdlib is atomic under this scheduler",
    "documents are rebuilt for every schedule so that object reuse (C14) cannot be confused with interference",
]

_PNG = (b"\x89PNG\r\n\x1a\n" + (13).to_bytes(4, "big") + b"IHDR" + (5).to_bytes(4, "big") + (7).to_bytes(4, "big")
        + b"\x08\x02\x00\x00\x00" + bytes(8)).hex()


def _cols(n, tag="r"):
    return [{"name": "@N0", "dtype": "str", "values": [f"{tag}{i}a" for i in range(n)]},
            {"name": "@N1", "dtype": "int", "values": list(range(n))}]


_HEAD = "@G0:v0 alpha be gamma de eps zeta eta th iota kap alpha be gamma de eps zeta eta th iota kap alpha be gamma de eps zeta eta"   # 1 line at 6.25 in, 2 at 3 in

ARCH = [
    # 0 coloured single table
    {"kind": "table", "sections": [{"df": {"cols": _cols(2)}, "body": {"text_color": "red"}, "headers": "default"}],
     "title": {"text": ["@T0"], "text_color": "blue"}},
    # 1 another palette, background colours
    {"kind": "table", "sections": [{"df": {"cols": _cols(2, "q")}, "body": {"text_background_color": ["green", "gold"]}, "headers": "default"}]},
    # 2 multi-section with colours
    {"kind": "multi", "header_layout": "nested",
     "sections": [{"df": {"cols": _cols(2)}, "body": {"text_color": "darkorange"}, "headers": "default"},
                  {"df": {"cols": _cols(1, "s")}, "body": {"text_color": "navy"}, "headers": "none"}],
     "footnote": {"text": ["@F0"], "text_color": "gray50"}},
    # 3 figure document with coloured title
    {"kind": "figure", "figure": {"files": [{"suffix": ".png", "stem": "f0", "hex": _PNG}, {"suffix": ".png", "stem": "f1", "hex": _PNG}]},
     "title": {"text": ["@T0"], "text_color": "firebrick3"}, "footnote": {"text": ["@F0"], "as_table": False, "text_color": "blue"}},
    # 4 paginated page_by table with a group starting inside a page, colours per column
    {"kind": "table", "page": {"nrow": 6},
     "sections": [{"df": {"cols": [{"name": "@N0", "dtype": "str", "values": ["@G0:v0"] * 3 + ["@G0:v1"] * 2},
                                   {"name": "@N1", "dtype": "str", "values": [f"r{i}" for i in range(5)]}]},
                   "body": {"page_by": ["@N0"], "text_color": ["red", "purple"]}, "headers": "default"}]},
    # 5 paginated group_by table without colours
    {"kind": "table", "page": {"nrow": 4},
     "sections": [{"df": {"cols": [{"name": "@N0", "dtype": "str", "values": ["a", "a", "a", "a", "b", "b"]},
                                   {"name": "@N1", "dtype": "int", "values": [1, 2, 3, 4, 5, 6]}]},
                   "body": {"group_by": ["@N0"]}, "headers": "default"}]},
    # 6 another paginated group_by table on a same-named column, other run lengths
    {"kind": "table", "page": {"nrow": 5},
     "sections": [{"df": {"cols": [{"name": "@N0", "dtype": "str", "values": ["x", "y", "y", "y", "y", "y", "z"]},
                                   {"name": "@N1", "dtype": "str", "values": [f"q{i}" for i in range(7)]}]},
                   "body": {"group_by": ["@N0"], "text_color": "blue"}, "headers": "default"}]},
    # 7 two page_by levels on one page: outer value constant across an inner boundary (shared heading state shows here)
    {"kind": "table", "page": {"nrow": 14},
     "sections": [{"df": {"cols": [{"name": "@N0", "dtype": "str", "values": ["@G0:v0"] * 4 + ["@G0:v1"] * 2},
                                   {"name": "@N1", "dtype": "str", "values": ["@G1:v0", "@G1:v0", "@G1:v1", "@G1:v1", "@G1:v0", "@G1:v1"]},
                                   {"name": "@N2", "dtype": "str", "values": [f"r{i}" for i in range(6)]}]},
                   "body": {"page_by": ["@N0", "@N1"]}, "headers": "default"}]},
    # 8 another multi-section document (three sections, other data)
    {"kind": "multi", "header_layout": "nested",
     "sections": [{"df": {"cols": _cols(1, "m")}, "body": {}, "headers": "default"},
                  {"df": {"cols": _cols(2, "n")}, "body": {"text_color": "red"}, "headers": "default"},
                  {"df": {"cols": _cols(1, "o")}, "body": {}, "headers": "none"}],
     "title": {"text": ["@T0"]}},
    # 9 / 10: tables closed by a table-rendered footnote; 9 has no page border_last, 10 the default 'double'.
    #         In the pairs (9,10) / (10,9) both documents use the SAME RTFFootnote object (case field share='footnote')
    {"kind": "table", "page": {"nrow": 40, "border_last": ""}, "sections": [{"df": {"cols": _cols(2, "f")}, "body": {}, "headers": "default"}],
     "footnote": {"text": ["@F0"], "as_table": True}},
    {"kind": "table", "page": {"nrow": 3}, "sections": [{"df": {"cols": _cols(4, "g")}, "body": {}, "headers": "default"}],
     "footnote": {"text": ["@F0"], "as_table": True}},
    # 11 / 12: two font sizes measured in alternation (texts fit one line at 9 pt, need two at 14 pt; one extra line moves
    #          the page break) next to a document that measures at 14 pt only: stale measuring state shows as a page shift
    {"kind": "table", "page": {"nrow": 7},
     "sections": [{"df": {"cols": [{"name": "@N0", "dtype": "str", "values": [f"r{i}c0 alpha be gamma de eps zeta eta th iota" for i in range(6)]},
                                   {"name": "@N1", "dtype": "str", "values": [f"r{i}c1" for i in range(6)]}]},
                   "body": {"text_font_size": [9, 14]}, "headers": [{"text": ["@H0.0", "@H0.1"]}]}]},
    {"kind": "table", "sections": [{"df": {"cols": _cols(2, "h")}, "body": {"text_font_size": 14}, "headers": "default"}]},
    # 13 / 14: the same non-ASCII characters (Latin-1, BMP, astral) in two documents: per-character caches filled on first use
    {"kind": "table", "sections": [{"df": {"cols": [{"name": "@N0", "dtype": "str", "values": ["caf\u00e9 \u2265 5", "na\u00efve \u2014 \U0001d6fc"]},
                                                    {"name": "@N1", "dtype": "str", "values": ["\u00b1 2", "\u03b1\u03b2"]}]}, "body": {}, "headers": "default"}],
     "title": {"text": ["@T0 \u2264 \u00e9"]}},
    {"kind": "table", "sections": [{"df": {"cols": [{"name": "@N0", "dtype": "str", "values": ["Two \u2014 \u00e9", "\u2265\u2264 \U0001d6fc"]}]},
                                    "body": {}, "headers": [{"text": ["@H0.0 \u00b1"]}]}], "footnote": {"text": ["@F0 \u03b1 \u00ef"]}},
    # 15 / 16: the same long page_by heading text in a wide and in a narrow table (wraps to another number of lines), tight nrow
    {"kind": "table", "page": {"nrow": 9},
     "sections": [{"df": {"cols": [{"name": "@N0", "dtype": "str", "values": [_HEAD] * 5 + ["@G0:v1"] * 6},
                                   {"name": "@N1", "dtype": "str", "values": [f"r{i}" for i in range(11)]},
                                   {"name": "@N2", "dtype": "str", "values": [f"s{i}" for i in range(11)]}]},
                   "body": {"page_by": ["@N0"]}, "headers": [{"text": ["@H0.0", "@H0.1"]}]}]},
    {"kind": "table", "page": {"nrow": 9, "col_width": 3.0},
     "sections": [{"df": {"cols": [{"name": "@N0", "dtype": "str", "values": [_HEAD] * 4 + ["@G0:v2"] * 7},
                                   {"name": "@N1", "dtype": "str", "values": [f"t{i}" for i in range(11)]},
                                   {"name": "@N2", "dtype": "str", "values": [f"u{i}" for i in range(11)]}]},
                   "body": {"page_by": ["@N0"]}, "headers": [{"text": ["@H0.0", "@H0.1"]}]}]},
    # 17 / 18: converted text (LaTeX commands, ^ _ >= <= shorthands, page fields) in cells, titles and footnotes: conversion state
    {"kind": "table", "sections": [{"df": {"cols": [{"name": "@N0", "dtype": "str", "values": ["\\alpha >= 5", "x^2 + y_i", "\\beta\\gamma"]},
                                                    {"name": "@N1", "dtype": "str", "values": ["<= \\mu", "\\pm 2", "a_b^c"]}]}, "body": {}, "headers": "default"}],
     "title": {"text": ["@T0 \\Delta_1"]}, "footnote": {"text": ["@F0 \\leq \\infty"]}},
    {"kind": "table", "sections": [{"df": {"cols": [{"name": "@N0", "dtype": "str", "values": ["\\sigma^2", "n >= 30", "\\chi_k"]}]}, "body": {},
                                    "headers": [{"text": ["@H0.0 \\theta"]}]}],
     "title": {"text": ["@T0 \\omega", "@T1 x_1"]}, "page_footer": {"text": ["@Q0 \\pagenumber of \\pagefield"]}},
    # 19: a second figure document (three pictures, other bytes): two figure documents reading files at the same time
    {"kind": "figure", "figure": {"files": [{"suffix": ".png", "stem": "g0", "hex": _PNG + "00"}, {"suffix": ".png", "stem": "g1", "hex": _PNG + "0102"},
                                            {"suffix": ".png", "stem": "g2", "hex": _PNG + "030405"}]}, "source": {"text": ["@S0"], "as_table": False}},
    # 20 / 21: twins - the SAME coloured title, subline, page header / footer and paragraph footnote (text and every attribute
    #          equal) in two documents whose palettes give those colours different indices; 20 shows them on each of 3 pages
    {"kind": "table", "page": {"nrow": 6, "page_footnote": "all"},
     "sections": [{"df": {"cols": [{"name": "@N0", "dtype": "str", "values": [f"k{i}" for i in range(9)]},
                                   {"name": "@N1", "dtype": "str", "values": [f"m{i}" for i in range(9)]}]},
                   "body": {"text_color": ["blue", "aquamarine"]}, "headers": [{"text": ["@H0.0", "@H0.1"]}]}],
     "title": {"text": ["@T0 house style \\alpha >= 5"], "text_color": "red"}, "subline": {"text": ["@U0 same"], "text_color": "orange"},
     "page_header": {"text": ["@P0 same"], "text_color": "red"}, "page_footer": {"text": ["@Q0 same"], "text_background_color": "yellow"},
     "footnote": {"text": ["@F0 same"], "as_table": False, "text_color": "purple"}},
    {"kind": "table", "page": {"nrow": 20},
     "sections": [{"df": {"cols": [{"name": "@N0", "dtype": "str", "values": ["z0", "z1"]}]}, "body": {"text_background_color": "wheat"},
                   "headers": [{"text": ["@H0.0"]}]}],
     "title": {"text": ["@T0 house style \\alpha >= 5"], "text_color": "red"}, "subline": {"text": ["@U0 same"], "text_color": "orange"},
     "page_header": {"text": ["@P0 same"], "text_color": "red"}, "page_footer": {"text": ["@Q0 same"], "text_background_color": "yellow"},
     "footnote": {"text": ["@F0 same"], "as_table": False, "text_color": "purple"}},
]
# two preemptions (thread 0 stops at k1, thread 1 runs up to ITS k2, thread 0 finishes, thread 1 finishes: overlapping, not nested)
# on a grid of positions for the pairs built to share something: GRID x GRID schedules per ordered pair
GRID_PAIRS = [(20, 21), (21, 20), (0, 1), (1, 0), (9, 10), (17, 18), (5, 6), (15, 16)]
SHARED = {(9, 10): "footnote", (10, 9): "footnote"}
COLD_PAIRS = [(13, 14), (14, 13), (0, 1), (4, 7)]      # schedules run in a fresh interpreter each (nothing encoded before)
QUICK_FULL = [(0, 1), (1, 0), (0, 2), (2, 0), (3, 0), (0, 3), (3, 19), (19, 3), (3, 3)]                      # quick: every call boundary
QUICK_STRIDE = [(20, 21), (21, 20), (2, 4), (4, 2), (5, 6), (6, 5), (4, 7), (7, 4), (7, 7), (2, 8), (8, 2), (9, 10), (10, 9), (11, 12), (12, 11), (13, 14), (14, 13),
                (15, 16), (16, 15), (17, 18), (18, 17), (17, 0)]   # quick: every 3rd call boundary (thorough: every one)
WIDE_STRIDE = {(20, 21): 8, (15, 16): 6, (16, 15): 6, (13, 14): 4, (14, 13): 4}      # the larger documents: every 6th / 4th boundary in quick
QUICK_PAIRS = QUICK_FULL + QUICK_STRIDE


def fresh(i):
    return R.build(ARCH[i]).doc


@functools.lru_cache(None)
def expected(i):
    return fresh(i).rtf_encode()


@functools.lru_cache(None)
def call_count(i, lines=False):
    doc = fresh(i)
    _, cnt, _, _ = run_schedule([doc.rtf_encode], [], lines=lines)
    return cnt[0]


@functools.lru_cache(None)
def line_events(i):
    """Indices (in the scheduler's event count with lines=True) of the LINE events of document i's encode: the call events
    are covered by the call-level enumeration."""
    import sys
    from ..sched import LINE_FILES
    doc = fresh(i)
    n, out = [0], []

    def local(frame, event, arg):
        if event == "line":
            n[0] += 1
            out.append(n[0])
        return local

    def tr(frame, event, arg):
        if event == "call":
            fn = frame.f_code.co_filename
            if "/rtflite/" in fn:
                n[0] += 1
                if fn.endswith(LINE_FILES):
                    return local
        return None

    sys.settrace(tr)
    try:
        doc.rtf_encode()
    finally:
        sys.settrace(None)
    return tuple(out)


def build_docs(idx, share=None):
    if share == "footnote":
        # both documents are built around one and the same RTFFootnote OBJECT
        import rtflite as rtf
        kws = [R.build_kwargs(ARCH[i])[0] for i in idx]
        for kw in kws[1:]:
            kw["rtf_footnote"] = kws[0]["rtf_footnote"]
        return [rtf.RTFDocument(**kw) for kw in kws]
    return [fresh(i) for i in idx]


@functools.lru_cache(None)
def cold_points(a, b, every):
    """Preemption points of document a's encode in a fresh interpreter: the calls that a warm process does not make
    (first-use paths: caches being filled, fonts loaded) - first and last occurrence of each such call site - plus the
    first occurrence of every 6th other call site (`every`: of every call site)."""
    from ..coldsched import spawn
    from ..faults import trace_calls
    prof = spawn({"mode": "profile", "docs": [a, b]})
    if "sites" not in prof:
        raise RuntimeError("cold profile failed: " + str(prof)[:300])
    expected(a)
    _, warm = trace_calls(fresh(a).rtf_encode)
    warm = set(warm)
    first, last = {}, {}
    for k, site in enumerate(prof["sites"], 1):
        first.setdefault(site, k)
        last[site] = k
    pts = set()
    others = []
    for site in first:
        if site.startswith("import:"):
            continue          # inside a module import (import lock held): not a preemption point
        if site not in warm:
            pts.update((first[site], last[site]))
        else:
            others.append(first[site])
    others.sort()
    pts.update(others if every else others[::6])
    return tuple(sorted(pts))


def enumerate_cases(tier):
    for a, b in COLD_PAIRS:
        for k in cold_points(a, b, tier == "thorough"):
            yield {"docs": [a, b], "preempt": [[0, k]], "lines": False, "cold": True}
    pairs = QUICK_PAIRS if tier == "quick" else [p for p in itertools.product(range(len(ARCH)), repeat=2)]
    # thread 0 starts, is preempted at its k-th library call, thread 1 then runs its whole encode inside it;
    # the ordered pair (b, a) covers the preemption of the other document
    for a, b in pairs:
        step = WIDE_STRIDE.get((a, b), 3) if (tier == "quick" and (a, b) in QUICK_STRIDE) else 1
        for k in range(1, call_count(a) + 1, step):
            c = {"docs": [a, b], "preempt": [[0, k]], "lines": False}
            if (a, b) in SHARED:
                c["share"] = SHARED[(a, b)]
            yield c
    grid = 10 if tier == "quick" else 40
    for a, b in GRID_PAIRS:
        na, nb = call_count(a), call_count(b)
        for i in range(grid):
            for j in range(grid):
                c = {"docs": [a, b], "preempt": [[0, 1 + (na - 1) * (2 * i + 1) // (2 * grid)], [1, 1 + (nb - 1) * (2 * j + 1) // (2 * grid)]], "lines": False}
                if (a, b) in SHARED:
                    c["share"] = SHARED[(a, b)]
                yield c
    # the twins also at line level (inside the modules that hold shared state or shared helpers): one preemption at every line event
    if tier == "quick":
        for k in line_events(21):
            yield {"docs": [21, 20], "preempt": [[0, k]], "lines": True}
    if tier == "thorough":
        for a, b in QUICK_PAIRS:
            for k in range(1, call_count(a, True) + 1):
                yield {"docs": [a, b], "preempt": [[0, k]], "lines": True}


@st.composite
def _sched(draw):
    n = draw(st.sampled_from([2, 2, 3]))
    docs = [draw(st.integers(0, len(ARCH) - 1)) for _ in range(n)]
    lines = draw(st.booleans())
    k = draw(st.integers(2, 3))
    pre = []
    for _ in range(k):
        tid = draw(st.integers(0, n - 1))
        pre.append([tid, draw(st.integers(1, max(2, call_count(docs[tid], lines))))])
    c = {"docs": docs, "preempt": sorted(pre), "lines": lines}
    if tuple(docs) in SHARED:
        c["share"] = SHARED[tuple(docs)]
    return c


def strategy(tier):
    return _sched()


def budget(tier):
    return 60 if tier == "quick" else 2500


def check(case) -> Result:
    res = Result()
    idx = case["docs"]
    exp = [expected(i) for i in idx]
    if case.get("cold"):
        from ..coldsched import spawn
        r = spawn({"mode": "run", "docs": idx, "preempt": case["preempt"], "share": case.get("share")})
        if "out" not in r:
            res.harness_error = f"cold schedule did not run: {str(r)[:300]}"
            return res
        out, fired, hung = [tuple(o) if o is not None else None for o in r["out"]], r["fired"], r["hung"]
    else:
        docs = build_docs(idx, case.get("share"))
        out, cnt, fired, hung = run_schedule([d.rtf_encode for d in docs], case["preempt"], lines=case.get("lines", False))
    if hung:
        res.harness_error = f"scheduler hung on {case}"
        return res
    res.checks = len(idx)
    kinds = "+".join(ARCH[i]["kind"] for i in idx)
    for tid, (o, e) in enumerate(zip(out, exp)):
        if o is None:
            res.harness_error = f"thread {tid} produced nothing on {case}"
            return res
        if o[0] == "exc":
            res.fail("exception", f"{kinds}/doc{idx[tid]}", o[1])
        elif o[1] != e:
            res.fail("differs", f"{kinds}/doc{idx[tid]}", first_diff(o[1], e))
    res.labels = [f"threads={len(idx)}", f"preemptions={len(case['preempt'])}", "lines" if case.get("lines") else "calls",
                  "fired_inside" if fired else "not_fired", "kinds=" + kinds, "cold_interpreter" if case.get("cold") else "warm_process"]
    res.nontrivial = fired > 0
    return res


def first_diff(a, b):
    for i, (x, y) in enumerate(zip(a, b)):
        if x != y:
            return f"first difference at offset {i}: got ...{a[max(0, i - 30):i + 30]!r} alone ...{b[max(0, i - 30):i + 30]!r}"
    return f"length {len(a)} vs {len(b)}"


def reductions(case):
    """Fewer threads / preemptions, call-level instead of line-level."""
    pre = case["preempt"]
    if len(pre) > 1:
        for i in range(len(pre)):
            yield dict(case, preempt=pre[:i] + pre[i + 1:])
    if case.get("lines"):
        yield dict(case, lines=False)
    if len(case["docs"]) > 2:
        for drop in range(len(case["docs"])):
            docs = [d for i, d in enumerate(case["docs"]) if i != drop]
            p2 = [[t - (1 if t > drop else 0), k] for t, k in pre if t != drop]
            if p2:
                yield {"docs": docs, "preempt": p2, "lines": case.get("lines", False)}
