"""C12 - colour and font references resolve to what the user asked for."""
from __future__ import annotations

from hypothesis import strategies as st

from .. import gen, refdata
from .. import recipe as R
from ..common import run_recipe
from ..engine import Result
from ..expect import attr_at, line_runs, text_attr_at
from ..model import classify
from ..rtfread import Para, Row

ID = "C12"
LEVEL = "exploration"
RULE = ("Each of the 657 named colours exhaustively (16 per document as a 4x4 body text-colour / background "
        "matrix, and on title, header, footnote, source, page header/footer), each of the 10 fonts on each "
        "component, and Hypothesis-generated single-section, 2-4 section and figure documents with random "
        "palettes of 1-8 colours in scalar / per-column / per-row / matrix shapes (single tables also paginated, with a page_by "
        "or a subline_by column removed from the display); a fifth of the generated documents and an enumerated family carry a HISTORY: rendered first without the colours of some components, which are then coloured in place (attributes of doc.rtf_*) or through model_copy(update=...), and rendered again - the oracle reads the second rendering against the colours requested now. Oracle: every \\cf \\cb "
        "\\chcbpat \\brdrcf parameter indexes an existing \\colortbl entry; for every sentinel-tagged element the "
        "entry's RGB equals the frozen RGB of the requested colour (0/absent only for ''/black); a colour "
        "table exists whenever a non-default colour is requested; every \\fN resolves to a \\fonttbl entry whose "
        "name is the frozen name of the requested font; a page_by heading row carries the colours / font of its own "
        "column (first row of the grid). Non-trivial = >=2 distinct non-default colours or a "
        "multi-section / figure document with a colour; distinct by sha1 of recipe.")
ASSUMPTIONS = ["frozen colour / font tables (data/*.json) are the meaning of 'the named colour' / 'font number'",
               "multi-section and figure documents are kept to one page per section; single tables are also paginated"]

ALL = refdata.color_names()


def _colors(n=8):
    return st.lists(st.sampled_from(ALL), min_size=1, max_size=n, unique=True)


@st.composite
def _shaped(draw, pal, nrow, ncol, with_blank=True):
    el = st.sampled_from(pal + (["", "black"] if with_blank else []))
    shape = draw(st.sampled_from(["scalar", "per_column", "matrix", "per_row", "pattern"]))
    if shape == "pattern":      # 2-3 rows recycled down the table
        return [[draw(el) for _ in range(ncol)] for _ in range(draw(st.integers(2, 3)))]
    if shape == "scalar":
        return draw(el)
    if shape == "per_column":
        return [draw(el) for _ in range(ncol)]
    if shape == "per_row":
        return {"t": [draw(el) for _ in range(max(nrow, 1))]}
    return [[draw(el) for _ in range(ncol)] for _ in range(max(nrow, 1))]


@st.composite
def _text_comp(draw, tag, pal, lines=None):
    n = lines or draw(st.integers(1, 3))
    spec = {"text": [f"{tag}{i}" for i in range(n)]}
    for key in ("text_color", "text_background_color"):
        if draw(st.booleans()):
            spec[key] = draw(st.sampled_from(pal)) if draw(st.booleans()) else [draw(st.sampled_from(pal + [""])) for _ in range(n)]
    if draw(st.booleans()):
        spec["text_font"] = draw(st.integers(1, 10)) if draw(st.booleans()) else [draw(st.integers(1, 10)) for _ in range(n)]
    return spec


@st.composite
def _section(draw, pal, idx, multi):
    ncol = draw(st.integers(1, 4))
    n = draw(st.integers(1, 6)) if multi else draw(st.integers(1, 14))
    names = [f"@N{idx}x{j}" for j in range(ncol)]
    cols = [{"name": names[j], "dtype": "str", "values": [f"r{i}c{j}" for i in range(n)]} for j in range(ncol)]
    body = {}
    if not multi and ncol >= 2 and draw(st.integers(0, 9)) < 3:
        # a page_by column shown as spanning rows: removed from the table, attributes keep the ORIGINAL column index
        g = draw(st.integers(0, ncol - 1))
        cols[g]["values"] = [f"@G0:v{i // 4}" for i in range(n)]
        body["page_by"] = [names[g]]
    elif not multi and ncol >= 2 and draw(st.integers(0, 9)) < 3:
        # a subline_by column: every group starts a page (and may continue over further pages); attributes keep the ORIGINAL indices
        g = draw(st.integers(0, ncol - 1))
        cols[g]["values"] = [f"@B0:v{i // 5}" for i in range(n)]
        body["subline_by"] = [names[g]]
    for key in ("text_color", "text_background_color"):
        if draw(st.integers(0, 9)) < 7:
            body[key] = draw(_shaped(pal, n, ncol))
    if draw(st.booleans()):
        body["text_font"] = draw(st.sampled_from([draw(st.integers(1, 10)), [draw(st.integers(1, 10)) for _ in range(ncol)]]))
    for side in ("left", "right", "top", "bottom"):
        if draw(st.integers(0, 9)) < 3:
            body[f"border_color_{side}"] = draw(_shaped(pal, n, ncol))
    hmode = draw(st.sampled_from(["default", "explicit", "none"]))
    if hmode == "explicit":
        h = {"text": [f"@H{idx}.{c}" for c in range(ncol)]}
        if draw(st.booleans()):
            h["text_color"] = draw(st.sampled_from([draw(st.sampled_from(pal)), [draw(st.sampled_from(pal + [""])) for _ in range(ncol)]]))
        if draw(st.booleans()):
            h["text_background_color"] = draw(st.sampled_from(pal))
        if draw(st.booleans()):
            h["text_font"] = draw(st.integers(1, 10))
        if draw(st.integers(0, 9)) < 4:
            h["border_color_" + draw(st.sampled_from(["left", "top", "bottom"]))] = draw(st.sampled_from(pal))
        headers = [h]
    elif hmode == "default" and draw(st.integers(0, 9)) < 5:
        # a header WITHOUT text (labels are filled in from the column names) that carries colours / a font
        h = {"text": None}
        if draw(st.booleans()):
            h["text_color"] = draw(st.sampled_from(pal))
        if draw(st.booleans()):
            h["text_background_color"] = draw(st.sampled_from(pal))
        if draw(st.integers(0, 9)) < 3:
            h["border_color_bottom"] = draw(st.sampled_from(pal))
        if draw(st.booleans()):
            h["text_font"] = draw(st.integers(1, 10))
        headers = [h]
    else:
        headers = hmode
    return {"df": {"cols": cols}, "body": body, "headers": headers}


@st.composite
def _doc(draw):
    pal = draw(_colors())
    kind = draw(st.sampled_from(["table"] * 4 + ["multi"] * 3 + ["figure"] * 2))
    rec = {"kind": kind, "page": {"nrow": 50}}
    if kind == "figure":
        f = draw(gen.figure_file())
        f["stem"] = "fig0"
        files = [f] + [dict(f, stem=f"fig{i}") for i in range(1, draw(st.integers(1, 3)))]
        rec["figure"] = {"files": files}
        rec["page"] = {"nrow": 40, "page_title": "all", "page_footnote": draw(st.sampled_from(["all", "first", "last"])),
                       "page_source": "all"}
    elif kind == "table":
        rec["sections"] = [draw(_section(pal, 0, False))]
        rec["page"] = {"nrow": draw(st.sampled_from([50, 50, 4, 6]))}
    else:
        k = draw(st.integers(2, 4))
        rec["sections"] = [draw(_section(draw(_colors(4)) if draw(st.booleans()) else pal, i, True)) for i in range(k)]
        rec["header_layout"] = "nested"
    if draw(st.integers(0, 9)) < 3:
        rec["page"]["use_color"] = draw(st.booleans())      # documented RTFPage option; must not detach indices from the table
    if draw(st.integers(0, 9)) < 7:
        rec["title"] = draw(_text_comp("@T", pal))
    if draw(st.integers(0, 9)) < 3:
        rec["subline"] = draw(_text_comp("@U", pal))
    for key, tag in (("footnote", "@F"), ("source", "@S")):
        if draw(st.integers(0, 9)) < 5:
            spec = {"text": [f"{tag}0"]}
            if kind == "figure":
                spec["as_table"] = False
            elif draw(st.booleans()):
                spec["as_table"] = draw(st.booleans())
            if draw(st.booleans()):
                spec["text_color"] = draw(st.sampled_from(pal))
            if draw(st.booleans()):
                spec["text_background_color"] = draw(st.sampled_from(pal))
            if draw(st.booleans()):
                spec["text_font"] = draw(st.integers(1, 10))
            if kind != "figure" and draw(st.integers(0, 9)) < 4:
                spec["border_color_" + draw(st.sampled_from(["left", "top", "bottom"]))] = draw(st.sampled_from(pal))
            rec[key] = spec
    if draw(st.integers(0, 9)) < 3:
        rec["page_header"] = draw(_text_comp("@P", pal, 1))
    if draw(st.integers(0, 9)) < 3:
        rec["page_footer"] = draw(_text_comp("@Q", pal, 1))
    if draw(st.integers(0, 9)) < 2:
        _add_recolour(draw, rec)
    return rec


def _coloured_components(rec):
    out = [c for c in ("title", "subline", "footnote", "source", "page_header", "page_footer")
           if isinstance(rec.get(c), dict) and any("color" in k for k in rec[c])]
    secs = rec.get("sections", [])
    if any(any("color" in k for k in s.get("body", {})) for s in secs):
        out.append("body")
    if secs and all(isinstance(s.get("headers"), list) for s in secs) and any("color" in k for s in secs for h in s["headers"] if h for k in h):
        out.append("headers")
    return out


def _add_recolour(draw, rec):
    """History: the document was rendered before these components had their colours; they get them in place (or through
    model_copy(update=...)) and the document is rendered again - the colours requested NOW are the recipe's."""
    have = _coloured_components(rec)
    if have:
        strip = draw(st.lists(st.sampled_from(have), min_size=1, max_size=len(have), unique=True))
        rec["recolour"] = {"strip": sorted(strip), "mode": draw(st.sampled_from(["in_place", "in_place", "model_copy"]))}


def strategy(tier):
    return _doc()


def budget(tier):
    return 400 if tier == "quick" else 3000


def enumerate_cases(tier):
    # every colour: 16 per document as text colour and as background, on a 4x4 body
    for k in range(0, len(ALL), 16):
        chunk = (ALL[k:k + 16] + ALL[:16])[:16]
        mat = [chunk[i * 4:(i + 1) * 4] for i in range(4)]
        cols = [{"name": f"@N0x{j}", "dtype": "str", "values": [f"r{i}c{j}" for i in range(4)]} for j in range(4)]
        for attr in ("text_color", "text_background_color"):
            yield {"kind": "table", "page": {"nrow": 50}, "sections": [{"df": {"cols": cols}, "body": {attr: mat}, "headers": "default"}],
                   "title": {"text": ["@T0"], "text_color": chunk[0]}, "footnote": {"text": ["@F0"], attr: chunk[1]}}
    # every colour on text components of a figure document and a two-section document (thorough: all, quick: every 8th)
    step = 1 if tier == "thorough" else 8
    png = {"suffix": ".png", "stem": "fig0", "hex": (b"\x89PNG\r\n\x1a\n" + (13).to_bytes(4, "big") + b"IHDR" + (5).to_bytes(4, "big") + (7).to_bytes(4, "big") + b"\x08\x02\x00\x00\x00" + bytes(8)).hex(), "format": "png", "w": 5, "h": 7}
    for k in range(0, len(ALL), step):
        c1, c2 = ALL[k], ALL[(k * 7 + 3) % len(ALL)]
        yield {"kind": "figure", "page": {"nrow": 40}, "figure": {"files": [png]}, "title": {"text": ["@T0", "@T1"], "text_color": [c1, c2]},
               "footnote": {"text": ["@F0"], "as_table": False, "text_background_color": c2}}
        cols = [{"name": "@N0x0", "dtype": "str", "values": ["r0c0", "r1c0"]}]
        cols2 = [{"name": "@N1x0", "dtype": "str", "values": ["r0c0"]}, {"name": "@N1x1", "dtype": "str", "values": ["r0c1"]}]
        yield {"kind": "multi", "page": {"nrow": 50}, "header_layout": "nested",
               "sections": [{"df": {"cols": cols}, "body": {"text_color": c1}, "headers": "default"},
                            {"df": {"cols": cols2}, "body": {"text_background_color": [c2, c1]}, "headers": "default"}]}
    # histories: rendered first without the colours of one component (or of all), coloured in place / by model_copy, rendered again
    cols = [{"name": f"@N0x{j}", "dtype": "str", "values": [f"r{i}c{j}" for i in range(3)]} for j in range(2)]
    cols1 = [{"name": f"@N1x{j}", "dtype": "str", "values": [f"r{i}c{j}" for i in range(2)]} for j in range(2)]
    base = {"title": {"text": ["@T0"], "text_color": "red"}, "footnote": {"text": ["@F0"], "text_background_color": "gold"},
            "source": {"text": ["@S0"], "text_color": "blue", "as_table": True, "border_color_top": "purple"},
            "page_header": {"text": ["@P0"], "text_color": "darkgreen"}}
    docs = [dict(base, kind="table", page={"nrow": 50},
                 sections=[{"df": {"cols": cols}, "body": {"text_color": [["orange", "cyan"], ["", "red"], ["navy", "navy"]], "border_color_left": "gray50"},
                            "headers": [{"text": ["@H0.0", "@H0.1"], "text_color": "firebrick3"}]}]),
            dict(base, kind="multi", page={"nrow": 50}, header_layout="nested",
                 sections=[{"df": {"cols": cols}, "body": {"text_color": "orange"}, "headers": [{"text": ["@H0.0", "@H0.1"], "text_background_color": "gray90"}]},
                           {"df": {"cols": cols1}, "body": {"text_background_color": ["pink", "tan"]}, "headers": [{"text": ["@H1.0", "@H1.1"]}]}]),
            {"kind": "figure", "page": {"nrow": 40}, "figure": {"files": [png]}, "title": {"text": ["@T0"], "text_color": "red"},
             "footnote": {"text": ["@F0"], "as_table": False, "text_color": "blue"}}]
    for dc in docs:
        have = _coloured_components(dc)
        for strip in [[c] for c in have] + [have]:
            for mode in ("in_place", "model_copy"):
                yield dict(dc, recolour={"strip": sorted(strip), "mode": mode})
    # every font on every component
    for f in range(1, 11):
        cols = [{"name": "@N0x0", "dtype": "str", "values": ["r0c0", "r1c0"]}]
        yield {"kind": "table", "page": {"nrow": 50}, "sections": [{"df": {"cols": cols}, "body": {"text_font": f}, "headers": [{"text": ["@H0.0"], "text_font": f}]}],
               "title": {"text": ["@T0"], "text_font": f}, "subline": {"text": ["@U0"], "text_font": f},
               "footnote": {"text": ["@F0"], "text_font": f}, "source": {"text": ["@S0"], "text_font": f},
               "page_header": {"text": ["@P0"], "text_font": f}, "page_footer": {"text": ["@Q0"], "text_font": f}}


class Ctx:
    def __init__(self, res, doc):
        self.res, self.doc = res, doc
        self.requested = set()

    def rgb(self, idx):
        if idx is None or idx == 0:
            return None
        if idx >= len(self.doc.colors) or idx < 0:
            return "dangling"
        return self.doc.colors[idx]

    def color(self, what, where, req, idx, idx2=None):
        self.res.checks += 1
        if req and req != "black":
            self.requested.add(req)
        want = None if (not req or req == "black") else refdata.color_rgb(req)
        for ix in ([idx] if idx2 is None else [idx, idx2]):
            got = self.rgb(ix)
            if got == "dangling":
                self.res.fail("dangling_index", f"{what}/{where}", f"index {ix} but table has {len(self.doc.colors)} entries (requested {req!r})")
                return
            if want is None and got is not None:
                self.res.fail("wrong_colour", f"{what}/{where}/default_expected", f"requested {req!r}, got index {ix} = {got}")
                return
            if want is not None and got != want:
                self.res.fail("wrong_colour", f"{what}/{where}", f"requested {req!r} = {want}, got index {ix} = {got}")
                return

    def font(self, where, req, cprops):
        self.res.checks += 1
        f = cprops.get("f")
        want = refdata.font_name(req if req is not None else 1)
        if f is None:
            self.res.fail("font", f"{where}/no_font_reference", "")
        elif f not in self.doc.fonts:
            self.res.fail("font", f"{where}/dangling", f"\\f{f} not in font table {sorted(self.doc.fonts)}")
        elif self.doc.fonts[f] != want:
            self.res.fail("font", f"{where}/wrong_font", f"requested font {req} = {want!r}, \\f{f} = {self.doc.fonts[f]!r}")

    def borders(self, where, cell, spec, i, j, last):
        for side, key in (("l", "left"), ("t", "top"), ("b", "bottom"), ("r", "right")):
            bd = cell.borders.get(side)
            if bd is None:
                continue
            req = attr_at(spec.get(f"border_color_{key}"), i, j)
            self.color("border", where, req, bd.get("cf"))

    def element(self, where, cprops, color, bg, font):
        self.color("text", where, color, cprops.get("cf"))
        self.color("background", where, bg, cprops.get("chcbpat"), cprops.get("cb"))
        self.font(where, font, cprops)


def check(case) -> Result:
    res = Result()
    out = run_recipe(case)
    if out.build_error:
        res.harness_error = "recipe does not build: " + out.build_error
        return res
    if out.encode_error:
        res.excluded = "encode_raised:" + out.encode_error[0]
        return res
    d = out.doc
    if not d.ok():
        res.excluded = "malformed_output"
        return res
    cx = Ctx(res, d)
    kind = case["kind"]
    # generic: every index anywhere resolves
    for blocks in list(d.pages) + d.headers + d.footers:
        for b in blocks:
            conts = b.cells if isinstance(b, Row) else ([b] if isinstance(b, Para) else [])
            for t in conts:
                for _, cp in t.runs:
                    for key in ("cf", "cb", "chcbpat"):
                        ix = cp.get(key)
                        res.checks += 1
                        if ix is not None and (ix < 0 or ix >= max(len(d.colors), 1)) and ix != 0:
                            res.fail("dangling_index", f"any/{kind}/{key}", f"\\{key}{ix}, table size {len(d.colors)}")
                    f = cp.get("f")
                    if f is not None and f not in d.fonts:
                        res.fail("font", f"any/{kind}/dangling", f"\\f{f}")
                if isinstance(b, Row):
                    for side, bd in t.borders.items():
                        if bd.get("cf") is not None and bd["cf"] != 0 and bd["cf"] >= len(d.colors):
                            res.fail("dangling_index", f"any/{kind}/brdrcf", f"\\brdrcf{bd['cf']}")
    pages = classify(d)
    secs = case.get("sections", [])
    # data rows in order -> (section, row)
    coords = [(si, i) for si, sec in enumerate(secs) for i in range(R.nrows(sec))]
    di = 0
    hdr_seen = {}
    for items in pages:
        for it in items:
            if it.role == "data":
                if di >= len(coords):
                    res.excluded = "row_count_mismatch"
                    return res
                si, i = coords[di]
                di += 1
                sec = secs[si]
                body = sec.get("body", {})
                names = [c["name"] for c in sec["df"]["cols"]]
                disp = R.displayed_columns(sec)
                for cell, name in zip(it.block.cells, disp):
                    j = names.index(name)
                    cx.element(f"body/{kind}", cell.cprops, attr_at(body.get("text_color"), i, j), attr_at(body.get("text_background_color"), i, j),
                               attr_at(body.get("text_font"), i, j, 1))
                    cx.borders(f"body/{kind}", cell, body, i, j, name == disp[-1])
            elif it.role == "heading" and len(secs) == 1:
                # a page_by heading row inherits the style of its own column (encode_spanning_row: "column index to
                # inherit attributes from"), first row of the attribute grid
                sec = secs[0]
                body = sec.get("body", {})
                names = [c["name"] for c in sec["df"]["cols"]]
                pb = R.as_list(body.get("page_by"))
                if len(pb) == 1 and pb[0] in names:
                    g = names.index(pb[0])
                    cell = it.block.cells[0]
                    cx.element(f"heading/{kind}", cell.cprops, attr_at(body.get("text_color"), 0, g), attr_at(body.get("text_background_color"), 0, g),
                               attr_at(body.get("text_font"), 0, g, 1))
            elif it.role == "header":
                t0 = it.texts[0]
                if t0.startswith("@H"):
                    sec = None
                    for s in secs:
                        if isinstance(s.get("headers"), list):
                            for h in s["headers"]:
                                if h and h.get("text") and h["text"][0] == t0:
                                    sec, hd = s, h
                    if sec is None:
                        continue
                    for c, cell in enumerate(it.block.cells):
                        cx.element(f"header/{kind}", cell.cprops, attr_at(hd.get("text_color"), 0, c), attr_at(hd.get("text_background_color"), 0, c),
                                   attr_at(hd.get("text_font"), 0, c, 1))
                        cx.borders(f"header/{kind}", cell, hd, 0, c, c == len(it.block.cells) - 1)
                else:
                    hd = {}
                    for s_ in secs:
                        if any(c["name"] == t0 for c in s_["df"]["cols"]) and isinstance(s_.get("headers"), list) and s_["headers"] and s_["headers"][0]:
                            hd = s_["headers"][0]
                    for c, cell in enumerate(it.block.cells):
                        cx.element(f"autoheader/{kind}", cell.cprops, attr_at(hd.get("text_color"), 0, c), attr_at(hd.get("text_background_color"), 0, c),
                                   attr_at(hd.get("text_font"), 0, c, 1))
                        if hd:
                            cx.borders(f"autoheader/{kind}", cell, hd, 0, c, c == len(it.block.cells) - 1)
            elif it.role in ("title", "subline"):
                spec = case.get(it.role)
                for ln, (txt, cp) in enumerate(line_runs(it.block)):
                    cx.element(f"{it.role}/{kind}", cp, text_attr_at(spec.get("text_color"), ln), text_attr_at(spec.get("text_background_color"), ln),
                               text_attr_at(spec.get("text_font"), ln, 1))
            elif it.role in ("fnrow", "fnpara", "srcrow", "srcpara"):
                spec = case.get("footnote" if it.role.startswith("fn") else "source")
                cont = it.block.cells[0] if isinstance(it.block, Row) else it.block
                cx.element(f"{it.role}/{kind}", cont.cprops, spec.get("text_color"), spec.get("text_background_color"), spec.get("text_font", 1))
                if isinstance(it.block, Row):
                    cx.borders(f"{it.role}/{kind}", cont, spec, 0, 0, True)
    for name, lst in (("page_header", d.headers), ("page_footer", d.footers)):
        spec = case.get(name)
        if spec and lst:
            for b in lst[0]:
                if isinstance(b, Para) and b.text:
                    for ln, (txt, cp) in enumerate(line_runs(b)):
                        cx.element(f"{name}/{kind}", cp, text_attr_at(spec.get("text_color"), ln), text_attr_at(spec.get("text_background_color"), ln),
                                   text_attr_at(spec.get("text_font"), ln, 1))
    if cx.requested and not d.has_colortbl:
        res.fail("colour_table", f"missing/{kind}", f"requested {sorted(cx.requested)[:4]}")
    res.labels = ["kind=" + kind, f"colours={min(len(cx.requested), 5)}", "colortbl" if d.has_colortbl else "no_colortbl",
                  "history=" + (case["recolour"]["mode"] if case.get("recolour") else "fresh")]
    res.nontrivial = len(cx.requested) >= 2 or (kind != "table" and len(cx.requested) >= 1)
    return res
