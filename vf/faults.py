"""Call-boundary fault injection owned by the harness (DESIGN C18): raise InjectedFault when the k-th call into a
file of the library is entered (sys.settrace 'call' event)."""
from __future__ import annotations

import sys


class InjectedFault(Exception):
    pass


def trace_calls(fn):
    """Run fn() and return (result_or_exception, list of 'file:function' for every library call entered)."""
    calls = []

    def tr(frame, event, arg):
        if event == "call":
            f = frame.f_code.co_filename
            if "/rtflite/" in f:
                calls.append(f.split("/rtflite/")[-1] + ":" + frame.f_code.co_name)
        return None

    sys.settrace(tr)
    try:
        out = ("ok", fn())
    except BaseException as e:  # noqa: BLE001
        out = ("exc", e)
    finally:
        sys.settrace(None)
    return out, calls


def run_with_fault(fn, k, only=None):
    """Run fn() raising InjectedFault at the k-th library call (k=None: no fault); `only`: count calls into files whose path
    contains one of these substrings only.
    Returns (outcome, fired, total_calls_seen) with outcome = ('ok', value) | ('exc', exception)."""
    n = [0]
    fired = [False]

    def tr(frame, event, arg):
        if event == "call" and "/rtflite/" in frame.f_code.co_filename and (only is None or any(o in frame.f_code.co_filename for o in only)):
            n[0] += 1
            if k is not None and n[0] == k:
                fired[0] = True
                raise InjectedFault(f"injected at call {k}: {frame.f_code.co_filename.split('/rtflite/')[-1]}:{frame.f_code.co_name}")
        return None

    sys.settrace(tr)
    try:
        out = ("ok", fn())
    except BaseException as e:  # noqa: BLE001
        out = ("exc", e)
    finally:
        sys.settrace(None)
    return out, fired[0], n[0]
