"""Hypothesis strategies producing recipes (DESIGN 3.3).  Construction, not rejection."""
from __future__ import annotations

from dataclasses import dataclass, field, replace

from hypothesis import strategies as st

BORDER_STYLES = ["single", "double", "thick", "dotted", "dashed", "small-dash", "dash-dotted",
                 "dash-dot-dotted", "triple", "wavy", "double-wavy", "striped", "embossed",
                 "engraved", "frame", ""]
PALETTE = ["red", "blue", "green", "gold", "gray50", "darkorange", "navy", "firebrick3", "white",
           "gray", "grey", "blue1", "gray100"]      # aliases: several names, one RGB value
PLACEMENTS = ["first", "last", "all"]
DICT_WORDS = ["fcharset", "page", "par", "rtf1", "cell", "row", "-----", "__NULL__", "a|b", "None",
              "null", "nan", "pard", "colortbl", "0", "-0", "1e5"]

SAFE_PUNCT = ".,;:-+()[]/%#&*!?='\"|~`$"
ALPHA_CONVERT_ON = "abcdefghijABCXYZ0123456789 " + SAFE_PUNCT          # no ^ _ < > \ { }
ALPHA_CONVERT_OFF = ALPHA_CONVERT_ON + "^_<>="                            # still no \ { }


@dataclass(frozen=True)
class Cfg:
    max_cols: int = 5
    max_rows: int = 16
    nrow_range: tuple = (1, 14)
    alphabet: str = ALPHA_CONVERT_ON
    convert_off_body: bool = False        # body text_convert False and wider alphabet
    allow_group_by: bool = False
    allow_page_by: bool = True
    allow_subline_by: bool = True
    max_page_by: int = 2
    dividers: bool = True
    long_text: float = 0.15               # probability that a string column has wrapping cells
    coord_tags: bool = False              # string cells embed r<i>c<j>
    attrs: bool = True                    # random body/header/component attributes
    attr_menu: tuple | None = None
    half_points: bool = False
    as_colheader_false: bool = False
    header_modes: tuple = ("default", "explicit", "explicit_w", "multi", "none")
    page_geometry: bool = True
    page_borders: bool = True
    components: bool = True
    hf: bool = True                       # page header / footer
    nulls: bool = True
    dtypes: tuple = ("str", "int", "float")
    min_plain_cols: int = 1
    force_str_first_plain: bool = False
    text_lines: int = 3
    multi_grouping: bool = False          # sections of a multi-section document may use page_by / subline_by themselves
    rel_width_floats: bool = False        # col_rel_width drawn from [0.2, 10] instead of a small menu
    col_width_range: tuple | None = None  # page col_width drawn from this range (inches)
    group_by_p: int = 3                   # out of 10
    noncontig: float = 0.0                # probability that group_by keys are made non-contiguous
    null_columns: float = 0.0             # probability that a plain / group_by column is an untyped all-null column (dtype Null)
    last_row_option: bool = False         # RTFBody(last_row=False) in a tenth of the tables
    group_blanks: bool = False            # page_by / subline_by values may end in blanks ("Site A  ")
    page_by_return: float = 0.0           # probability that a later single-level page_by group reuses the value of an earlier, non-adjacent one
    numeric_page_by: float = 0.0          # probability that the page_by columns hold numbers (int / float) instead of tagged strings
    paper_range: tuple | None = None      # paper width / height drawn from this range (inches) instead of the menu
    subline_return: float = 0.0           # probability that a later subline_by section reuses the value of an earlier, non-adjacent one
    convert_per_column: bool = False      # text_convert given per ORIGINAL column; trigger characters only where it is off


def _txt(cfg: Cfg, max_size=8):
    base = st.text(alphabet=cfg.alphabet, min_size=0, max_size=max_size)
    return st.one_of(
        base,
        base.map(lambda s: "  " + s),
        base.map(lambda s: s + "  "),
        st.sampled_from([w for w in DICT_WORDS
                         if cfg.convert_off_body or not any(ch in w for ch in "^_<>")]),
        st.just(""),
    ).filter(lambda s: not s.startswith("@"))


def tag_text(tag, cfg: Cfg, extra=6):
    return st.text(alphabet=cfg.alphabet.replace("@", ""), max_size=extra).map(lambda s: tag + s)


@st.composite
def run_lengths(draw, n, max_run=6):
    """Composition of n into run lengths."""
    out = []
    left = n
    while left > 0:
        r = draw(st.integers(1, min(max_run, left)))
        out.append(r)
        left -= r
    return out


@st.composite
def group_columns(draw, n, levels, tag, cfg: Cfg, dividers=False, max_run=6, nulls=False):
    """Hierarchically sorted key columns: every prefix key is one contiguous run."""
    cols = [[None] * n for _ in range(levels)]
    counters = [0] * levels

    def fill(level, lo, hi):
        if level >= levels or lo >= hi:
            return
        pos = lo
        for r in draw(run_lengths(hi - lo, max_run if level == levels - 1 else max(max_run, 8))):
            roll = draw(st.integers(0, 99))
            if dividers and roll < 12:
                v = "-----"
            elif nulls and roll >= 88:
                v = None          # a null key is a value of its own
            else:
                v = f"{tag}{level}:v{counters[level]}"
                if cfg.group_blanks and tag in ("@G", "@B"):
                    v += " " * draw(st.sampled_from([0, 0, 1, 2]))
            counters[level] += 1
            for i in range(pos, pos + r):
                cols[level][i] = v
            fill(level + 1, pos, pos + r)
            pos += r

    fill(0, 0, n)
    return cols


@st.composite
def plain_column(draw, cfg: Cfg, j, n, dtype=None, widths_hint=None):
    if dtype is None and cfg.null_columns and draw(st.integers(0, 99)) < cfg.null_columns * 100:
        return {"dtype": "null", "values": [None] * n}          # pl.DataFrame({"x": [None] * n}): dtype Null
    dtype = dtype or draw(st.sampled_from(cfg.dtypes))
    nullp = 12 if cfg.nulls else 0
    if dtype == "str":
        long_col = draw(st.integers(0, 99)) < cfg.long_text * 100
        vals = []
        for i in range(n):
            if nullp and draw(st.integers(0, 99)) < nullp:
                vals.append(None)
                continue
            if long_col and draw(st.booleans()):
                words = draw(st.lists(st.text(alphabet="abcdefgh", min_size=2, max_size=9), min_size=6, max_size=40))
                s = " ".join(words)
            else:
                s = draw(_txt(cfg))
            if cfg.coord_tags:
                s = f"r{i}c{j} " + s
            vals.append(s)
        return {"dtype": "str", "values": vals}
    if dtype == "int":
        el = st.integers(-10**6, 10**6)
    elif dtype == "bool":
        el = st.booleans()
    else:
        el = st.one_of(st.floats(-1e6, 1e6, allow_nan=False), st.sampled_from([0.5, 1e-7, 1e16, -0.0, 1 / 3]))
    vals = [None if (nullp and draw(st.integers(0, 99)) < nullp) else draw(el) for _ in range(n)]
    return {"dtype": dtype, "values": vals}


# ------------------------------------------------------------------------------------ attributes

def _val_strategy(name, cfg: Cfg):
    if name == "text_font":
        return st.integers(1, 10)
    if name == "text_font_size":
        if cfg.half_points:
            return st.one_of(st.integers(6, 24), st.integers(12, 48).map(lambda x: x / 2),
                             st.sampled_from([9.3, 9.4, 8.8, 11.9, 10.25, 7.75, 6.1]))
        return st.integers(6, 24)
    if name == "text_format":
        return st.sampled_from(["", "b", "i", "u", "s", "bi", "^", "_", "biu"])
    if name in ("text_color", "text_background_color") or name.startswith("border_color_"):
        return st.sampled_from(PALETTE + ["", "black"])
    if name == "text_justification":
        return st.sampled_from(["l", "c", "r", "d", "j"])
    if name.startswith("text_indent_"):
        return st.integers(0, 400)
    if name == "text_space":
        return st.integers(1, 3)
    if name in ("text_space_before", "text_space_after"):
        return st.integers(0, 200)
    if name in ("text_hyphenation",):
        return st.booleans()
    if name in ("border_left", "border_right", "border_top", "border_bottom"):
        return st.sampled_from(BORDER_STYLES)
    if name == "border_width":
        return st.integers(1, 90)
    if name == "cell_height":
        return st.sampled_from([0.1, 0.15, 0.2, 0.3, 0.5])
    if name == "cell_justification":
        return st.sampled_from(["l", "c", "r"])
    if name == "cell_vertical_justification":
        return st.sampled_from(["top", "center", "bottom"])
    raise KeyError(name)


BODY_ATTRS = ("text_font", "text_font_size", "text_format", "text_color", "text_background_color",
              "text_justification", "text_indent_first", "text_indent_left", "text_indent_right",
              "text_space", "text_space_before", "text_space_after", "text_hyphenation",
              "border_left", "border_right", "border_top", "border_bottom", "border_width",
              "border_color_left", "border_color_right", "border_color_top", "border_color_bottom",
              "cell_height", "cell_justification", "cell_vertical_justification")
ROW_LEVEL = ("cell_height", "cell_justification")
TEXT_ATTRS = ("text_font", "text_font_size", "text_format", "text_color", "text_background_color",
              "text_justification", "text_indent_first", "text_indent_left", "text_indent_right",
              "text_space", "text_space_before", "text_space_after", "text_hyphenation")


@st.composite
def shaped(draw, name, cfg: Cfg, nrow, ncol, shapes=("scalar", "per_column", "matrix", "per_row", "pattern")):
    el = _val_strategy(name, cfg)
    shape = draw(st.sampled_from(shapes))
    nrow = max(nrow, 1)
    if shape == "scalar":
        return draw(el)
    if shape == "per_column":
        if name in ROW_LEVEL:
            return [draw(el)] * ncol
        return [draw(el) for _ in range(ncol)]
    if shape == "per_row":
        k = nrow if draw(st.booleans()) else draw(st.integers(1, min(nrow, 3)))
        return {"t": [draw(el) for _ in range(k)]}
    if shape == "pattern":      # a short matrix recycled down the rows
        nrow = draw(st.integers(1, min(nrow, 3)))
    rows = []
    for _ in range(nrow):
        if name in ROW_LEVEL:
            rows.append([draw(el)] * ncol)
        else:
            rows.append([draw(el) for _ in range(ncol)])
    return rows


@st.composite
def body_attrs(draw, cfg: Cfg, nrow, ncol, p=18):
    out = {}
    menu = cfg.attr_menu or BODY_ATTRS
    for name in menu:
        if draw(st.integers(0, 99)) < p:
            out[name] = draw(shaped(name, cfg, nrow, ncol))
    return out


@st.composite
def text_attrs(draw, cfg: Cfg, nlines, p=15):
    out = {}
    for name in TEXT_ATTRS:
        if draw(st.integers(0, 99)) < p:
            el = _val_strategy(name, cfg)
            if draw(st.booleans()):
                out[name] = draw(el)
            else:
                out[name] = [draw(el) for _ in range(nlines)]
    return out


@st.composite
def text_component(draw, tag, cfg: Cfg, with_attrs=True):
    n = draw(st.integers(1, cfg.text_lines))
    spec = {"text": [draw(tag_text(f"{tag}{i}", cfg)) for i in range(n)]}
    if with_attrs and cfg.attrs:
        spec.update(draw(text_attrs(cfg, n)))
    return spec


@st.composite
def table_text_component(draw, tag, cfg: Cfg, default_as_table):
    n = draw(st.integers(1, cfg.text_lines))
    spec = {"text": [draw(tag_text(f"{tag}{i}", cfg)) for i in range(n)]}
    mode = draw(st.sampled_from(["default", "table", "para"]))
    if mode != "default":
        spec["as_table"] = mode == "table"
    if cfg.attrs:
        for name in TEXT_ATTRS:
            if draw(st.integers(0, 99)) < 10:
                spec[name] = draw(_val_strategy(name, cfg))
    return spec


@st.composite
def page_spec(draw, cfg: Cfg, nrow=None):
    page = {"nrow": nrow if nrow is not None else draw(st.integers(*cfg.nrow_range))}
    if cfg.page_geometry:
        g = draw(st.integers(0, 9))
        if g >= 4:
            page["orientation"] = draw(st.sampled_from(["portrait", "landscape"]))
        if g >= 7:
            page["width"] = draw(st.sampled_from([8.27, 11.69, 8.5, 11.0, 7.25, 14.0]))
            page["height"] = draw(st.sampled_from([11.69, 8.27, 11.0, 8.5, 10.5, 5.83]))
            if cfg.paper_range is not None and draw(st.booleans()):
                # arbitrary positive paper sizes: labels, posters (A0 33.11 x 46.81), rolls
                lo, hi = cfg.paper_range
                page["width"] = round(draw(st.floats(lo, hi)), 2)
                page["height"] = round(draw(st.floats(lo, hi)), 2)
        if g == 9:
            page["margin"] = [draw(st.sampled_from([0.5, 0.75, 1.0, 1.25, 1.33, 0.79])) for _ in range(6)]
        if g >= 8:
            page["col_width"] = draw(st.sampled_from([4.0, 5.5, 6.25, 7.0, 9.0]))
    if cfg.col_width_range is not None and draw(st.integers(0, 9)) < 7:
        page["col_width"] = round(draw(st.floats(*cfg.col_width_range)), 3)
    if cfg.page_borders and draw(st.integers(0, 9)) < 3:
        page["border_first"] = draw(st.sampled_from(BORDER_STYLES))
        page["border_last"] = draw(st.sampled_from(BORDER_STYLES))
    for k in ("page_title", "page_footnote", "page_source"):
        if draw(st.integers(0, 9)) < 6:
            page[k] = draw(st.sampled_from(PLACEMENTS))
    return page


@st.composite
def header_specs(draw, cfg: Cfg, ndisp, mode=None, sec_tag="", ncol=None):
    mode = mode or draw(st.sampled_from(cfg.header_modes))
    if mode in ("default", "none"):
        return mode, mode
    rows = []
    if mode == "multi":
        k = draw(st.integers(1, max(1, min(3, ndisp))))
        top = {"text": [f"@H{sec_tag}0.{c}" for c in range(k)], "col_rel_width": [draw(st.integers(1, 4)) for _ in range(k)]}
        rows.append(top)
    r = len(rows)
    if mode == "explicit_all":   # one label per ORIGINAL column, even if page_by / subline_by remove some
        ndisp = ncol or ndisp
    h = {"text": [draw(tag_text(f"@H{sec_tag}{r}.{c}", cfg, 4)) for c in range(ndisp)]}
    if mode == "explicit_w":
        if cfg.rel_width_floats:
            h["col_rel_width"] = [draw(st.floats(0.2, 10.0).map(lambda x: round(x, 3))) for _ in range(ndisp)]
        else:
            h["col_rel_width"] = [draw(st.sampled_from([0.5, 1, 1.5, 2, 3])) for _ in range(ndisp)]
    if cfg.attrs:
        for name in ("text_font", "text_font_size", "text_format", "text_color", "text_justification",
                     "border_bottom", "border_top"):
            if draw(st.integers(0, 99)) < 10:
                h[name] = draw(shaped(name, cfg, 1, ndisp, shapes=("scalar", "per_column")))
    rows.append(h)
    return mode, rows


@st.composite
def table_section(draw, cfg: Cfg, sec_index=0, multi=False):
    ncol = draw(st.integers(max(1, cfg.min_plain_cols), cfg.max_cols))
    n = draw(st.integers(0, cfg.max_rows))
    names = [f"@N{sec_index}x{j}" if multi else f"@N{j}" for j in range(ncol)]
    order = draw(st.permutations(list(range(ncol))))
    avail = list(order)
    budget = ncol - cfg.min_plain_cols
    body = {}
    page_by, subline_by, group_by = [], [], []
    strat = "plain"
    if not multi or cfg.multi_grouping:
        choice = draw(st.integers(0, 9))
        if cfg.allow_page_by and budget > 0 and choice in (0, 1, 2, 3, 8):
            k = draw(st.integers(1, min(cfg.max_page_by, budget)))
            page_by = sorted(avail[:k]) if draw(st.booleans()) else avail[:k]
            avail = avail[k:]
            budget -= k
        if cfg.allow_subline_by and budget > 0 and choice in (4, 5, 8):
            subline_by = avail[:1]
            avail = avail[1:]
            budget -= 1
        if cfg.allow_group_by and budget > 0 and draw(st.integers(0, 9)) < cfg.group_by_p:
            k = draw(st.integers(1, min(2, budget)))
            group_by = avail[:k]
            avail = avail[k:]
            budget -= k
    cols = [None] * ncol
    if page_by:
        gc = draw(group_columns(n, len(page_by), "@G", cfg, dividers=cfg.dividers))
        if cfg.page_by_return and len(page_by) == 1 and draw(st.integers(0, 99)) < cfg.page_by_return * 100:
            # S1 S1 S2 S1 S3: the rows of one value are not contiguous (every run is a group of its own)
            starts = [i for i in range(n) if i == 0 or gc[0][i] != gc[0][i - 1]]
            if len(starts) >= 3:
                k = draw(st.integers(2, len(starts) - 1))
                end = starts[k + 1] if k + 1 < len(starts) else n
                if "-----" not in (gc[0][starts[k]], gc[0][starts[k - 2]]):
                    for i in range(starts[k], end):
                        gc[0][i] = gc[0][starts[k - 2]]
        numeric = bool(cfg.numeric_page_by) and draw(st.integers(0, 99)) < cfg.numeric_page_by * 100 \
            and not any(v == "-----" for c in gc for v in c)
        for lvl, j in enumerate(page_by):
            if numeric:
                vals = [None if v is None else (int(v.rsplit("v", 1)[1]) if lvl % 2 == 0 else float(v.rsplit("v", 1)[1]) + 0.5) for v in gc[lvl]]
                cols[j] = {"name": names[j], "dtype": "int" if lvl % 2 == 0 else "float", "values": vals}
            else:
                cols[j] = {"name": names[j], "dtype": "str", "values": gc[lvl]}
        body["page_by"] = [names[j] for j in page_by]
        body["new_page"] = draw(st.booleans())
        if draw(st.booleans()):
            body["pageby_row"] = draw(st.sampled_from(["column", "first_row"]))
        strat = "page_by"
    if subline_by:
        gc = draw(group_columns(n, 1, "@B", cfg, max_run=8))
        if cfg.subline_return and draw(st.integers(0, 99)) < cfg.subline_return * 100:
            # A A B A C: the sections of one value are scattered (each run is still a section / page of its own)
            starts = [i for i in range(n) if i == 0 or gc[0][i] != gc[0][i - 1]]
            if len(starts) >= 3:
                k = draw(st.integers(2, len(starts) - 1))
                end = starts[k + 1] if k + 1 < len(starts) else n
                for i in range(starts[k], end):
                    gc[0][i] = gc[0][starts[k - 2]]
        cols[subline_by[0]] = {"name": names[subline_by[0]], "dtype": "str", "values": gc[0]}
        body["subline_by"] = [names[subline_by[0]]]
        strat = "subline+page_by" if page_by else "subline"
    if group_by:
        gc = draw(group_columns(n, len(group_by), "g", cfg, max_run=4, nulls=cfg.nulls))
        for lvl, j in enumerate(group_by):
            cols[j] = {"name": names[j], "dtype": "str", "values": gc[lvl]}
            if cfg.null_columns and draw(st.integers(0, 99)) < cfg.null_columns * 100:
                cols[j] = {"name": names[j], "dtype": "null", "values": [None] * n}     # a key level without any value
        body["group_by"] = [names[j] for j in group_by]
        if cfg.noncontig and n >= 3 and draw(st.integers(0, 99)) < cfg.noncontig * 100:
            a = draw(st.integers(0, n - 1))
            b = draw(st.integers(0, n - 1))
            for lvl, j in enumerate(group_by):
                v = cols[j]["values"]
                v[a], v[b] = v[b], v[a]
    first_plain = True
    flags = None
    if cfg.convert_per_column:
        flags = [draw(st.booleans()) for _ in range(ncol)]
        body["text_convert"] = flags
    for j in range(ncol):
        if cols[j] is None:
            dtype = "str" if (cfg.force_str_first_plain and first_plain) else None
            cfg_j = cfg
            if flags is not None and not flags[j]:
                cfg_j = replace(cfg, alphabet=ALPHA_CONVERT_OFF)
                dtype = "str"
            c = draw(plain_column(cfg_j, j, n, dtype=dtype))
            if cfg_j is not cfg:
                c["values"] = [v if v is None else v + draw(st.sampled_from(["", "^2", "_10", ">=1", "<=x", "m^2_i"])) for v in c["values"]]
            c["name"] = names[j]
            cols[j] = c
            first_plain = False
    if draw(st.integers(0, 9)) < 3:
        body["pageby_header"] = draw(st.booleans())
    if cfg.convert_off_body:
        body["text_convert"] = False
    if cfg.rel_width_floats:
        m = draw(st.integers(0, 9))
        if m < 6:
            body["col_rel_width"] = [draw(st.floats(0.2, 10.0).map(lambda x: round(x, 3))) for _ in range(ncol)]
        elif m < 8:
            body["col_rel_width"] = [draw(st.integers(1, 10)) for _ in range(ncol)]
        elif m == 8:
            body["col_rel_width"] = [draw(st.sampled_from([1, 2.5]))]
        else:
            # documented form: one width per DISPLAYED column (page_by / subline_by columns left out)
            nd = ncol - len(set(subline_by)) - (len(set(page_by)) if (page_by and (not body.get("new_page") or body.get("pageby_row", "column") != "column")) else 0)
            if 0 < nd < ncol:
                body["col_rel_width"] = [draw(st.integers(1, 6)) for _ in range(nd)]
    elif draw(st.integers(0, 9)) < 4:
        body["col_rel_width"] = [draw(st.sampled_from([0.5, 1, 1.5, 2, 3.3])) for _ in range(ncol)]
    if cfg.attrs:
        for k, v in draw(body_attrs(cfg, n, ncol)).items():
            body.setdefault(k, v)
    if cfg.as_colheader_false and draw(st.integers(0, 99)) < 8:
        body["as_colheader"] = False
    if cfg.last_row_option and draw(st.integers(0, 9)) == 0:
        body["last_row"] = False
    sec = {"df": {"cols": cols}, "body": body}
    from .recipe import displayed_columns
    ndisp = len(displayed_columns(sec))
    mode, hs = draw(header_specs(cfg, ndisp, sec_tag=f"{sec_index}x" if multi else "", ncol=ncol))
    sec["headers"] = hs
    return sec, strat, mode


@st.composite
def components(draw, cfg: Cfg, figure=False):
    out = {}
    if not cfg.components:
        return out
    if draw(st.integers(0, 9)) < 6:
        out["title"] = draw(text_component("@T", cfg))
    if draw(st.integers(0, 9)) < 3:
        out["subline"] = draw(text_component("@U", cfg))
    if draw(st.integers(0, 9)) < 5:
        fn = draw(table_text_component("@F", cfg, True))
        if figure:
            fn["as_table"] = False
        out["footnote"] = fn
    if draw(st.integers(0, 9)) < 5:
        src = draw(table_text_component("@S", cfg, False))
        if figure:
            src["as_table"] = False
        out["source"] = src
    if cfg.hf and draw(st.integers(0, 9)) < 3:
        if draw(st.booleans()):
            out["page_header"] = {}
        else:
            out["page_header"] = draw(text_component("@P", cfg))
    if cfg.hf and draw(st.integers(0, 9)) < 3:
        out["page_footer"] = draw(text_component("@Q", cfg))
    return out


@st.composite
def table_recipe(draw, cfg: Cfg = Cfg()):
    sec, strat, mode = draw(table_section(cfg))
    rec = {"kind": "table", "page": draw(page_spec(cfg)), "sections": [sec]}
    rec.update(draw(components(cfg)))
    return rec


@st.composite
def multi_recipe(draw, cfg: Cfg = Cfg()):
    k = draw(st.integers(2, 4))
    secs = []
    for i in range(k):
        sec, _, _ = draw(table_section(replace(cfg, max_rows=min(cfg.max_rows, 8)), sec_index=i, multi=True))
        secs.append(sec)
    rec = {"kind": "multi", "page": draw(page_spec(cfg)), "sections": secs,
           "header_layout": draw(st.sampled_from(["nested", "nested", "flat"]))}
    if draw(st.integers(0, 9)) < 3:
        # the same RTFBody object for all sections: only settings that do not depend on the column count
        common = {k: v for k, v in secs[0]["body"].items() if not isinstance(v, (list, dict)) and k not in ("page_by", "subline_by", "group_by", "new_page")}
        for sec in secs:
            sec["body"] = dict(common)
            if isinstance(sec.get("headers"), list):
                sec["headers"] = "default"
        rec["share_body"] = True
    rec.update(draw(components(cfg)))
    return rec


# ------------------------------------------------------------------------------------ figures

def _be(n, size):
    return n.to_bytes(size, "big")


@st.composite
def png_bytes(draw, w=None, h=None):
    # PNG spec: width/height are four-byte integers limited to 1 .. 2^31-1
    w = w if w is not None else draw(st.one_of(st.integers(1, 4000), st.integers(1, 2**31 - 1)))
    h = h if h is not None else draw(st.one_of(st.integers(1, 4000), st.integers(1, 2**31 - 1)))
    ihdr = b"IHDR" + _be(w, 4) + _be(h, 4) + bytes([8, 2, 0, 0, 0])
    body = b"\x89PNG\r\n\x1a\n" + _be(13, 4) + ihdr + b"\x00\x00\x00\x00"
    tail = draw(st.binary(max_size=300))
    return body + tail, w, h


@st.composite
def jpeg_bytes(draw):
    w = draw(st.integers(1, 65535))
    h = draw(st.integers(1, 65535))
    out = bytearray(b"\xff\xd8")
    for _ in range(draw(st.integers(0, 3))):
        marker = draw(st.sampled_from([0xE0, 0xE1, 0xFE, 0xDB, 0xC4]))
        payload = draw(st.binary(max_size=40))
        out += bytes([0xFF, marker]) + _be(len(payload) + 2, 2) + payload
    sof = draw(st.sampled_from([0xC0, 0xC1, 0xC2]))
    payload = bytes([8]) + _be(h, 2) + _be(w, 2) + bytes([3, 1, 0x11, 0, 2, 0x11, 1, 3, 0x11, 1])
    out += bytes([0xFF, sof]) + _be(len(payload) + 2, 2) + payload
    out += draw(st.binary(max_size=200))
    return bytes(out), w, h


@st.composite
def figure_file(draw):
    fmt = draw(st.sampled_from(["png", "png", "jpeg", "jpeg", "emf"]))
    pad = draw(st.sampled_from([0, 0, 0, 1, 39, 40, 41, 79, 80, 81]))
    if fmt == "png":
        data, w, h = draw(png_bytes())
        suffix = draw(st.sampled_from([".png", ".png", ".PNG"]))
    elif fmt == "jpeg":
        data, w, h = draw(jpeg_bytes())
        suffix = draw(st.sampled_from([".jpg", ".jpeg", ".JPG"]))
    else:
        data, w, h = draw(st.binary(min_size=0, max_size=300)), None, None
        suffix = ".emf"
    if pad:
        # pad so that total length ≡ pad (mod 40): around the 80-hex-character line break
        target = (pad - len(data)) % 40
        data = data + bytes(draw(st.binary(min_size=target, max_size=target)))
    return {"suffix": suffix, "hex": data.hex(), "format": fmt, "w": w, "h": h}


@st.composite
def figure_recipe(draw, cfg: Cfg = Cfg()):
    n = draw(st.integers(1, 6))
    files = [draw(figure_file()) for _ in range(n)]
    for i, f in enumerate(files):
        f["stem"] = f"fig{i}"
    dim = st.sampled_from([1.0, 2.5, 3.33, 5.0, 6.125, 0.7])
    fig = {"files": files}
    for key in ("fig_width", "fig_height"):
        mode = draw(st.integers(0, 3))
        if mode == 1:
            fig[key] = draw(dim)
        elif mode == 2:
            fig[key] = [draw(dim) for _ in range(draw(st.integers(1, n + 1)))]
        elif mode == 3:
            fig[key] = [draw(dim) for _ in range(n)]
    if draw(st.booleans()):
        fig["fig_align"] = draw(st.sampled_from(["left", "center", "right"]))
    rec = {"kind": "figure", "page": draw(page_spec(replace(cfg, page_borders=False), nrow=40)), "figure": fig}
    rec.update(draw(components(cfg, figure=True)))
    return rec


def universal(cfg: Cfg = Cfg(), weights=(6, 2, 2)):
    parts = []
    parts += [table_recipe(cfg)] * weights[0]
    parts += [multi_recipe(cfg)] * weights[1]
    parts += [figure_recipe(cfg)] * weights[2]
    return st.one_of(*parts)
