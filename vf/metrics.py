"""Independent text-width measurement (PIL directly on the bundled font files) and calibrated filler."""
from __future__ import annotations

import functools
import math
import os

from PIL import ImageFont

from . import refdata


def _fonts_dir():
    return os.path.join(os.environ.get("VERIF_REPO", "/repo"), "src", "rtflite", "fonts")


@functools.lru_cache(maxsize=512)
def _font(number: int, size: float):
    return ImageFont.truetype(os.path.join(_fonts_dir(), refdata.font_file(number)), size=size)


def width_in(text: str, font: int = 1, size: float = 9) -> float:
    """Width in inches at 72 dpi (points / 72)."""
    if not text:
        return 0.0
    return _font(font, float(size)).getlength(text) / 72.0


def lines_lower_bound(text: str, font: int, size: float, col_width_in: float) -> int:
    """At least this many lines are needed to set `text` in a column of this width."""
    if not text or col_width_in <= 0:
        return 1
    longest = max(width_in(part, font, size) for part in text.split("\n"))
    extra = text.count("\n")
    return max(1, math.ceil(longest / col_width_in - 1e-9)) + extra


WORDS = ["alpha", "be", "gamma", "de", "eps", "zeta", "eta", "th", "iota", "kap"]
# glyph classes far from the average advance: an estimate "characters x average width" is wrong for these
WIDE_WORDS = ["WWWWWWWW", "MWMWMWMW", "WMMWWMMW", "@W@WM@WM", "MMMMWWWW", "WWMMWWMM"]
NARROW_WORDS = ["illiilli", "itlitfil", "filliitt", "litiltil", "tilltill", "ijijllii"]
WORD_SETS = {"normal": WORDS, "wide": WIDE_WORDS, "narrow": NARROW_WORDS}


def filler(k: int, col_width_in: float, font: int = 1, size: float = 9, prefix: str = "", fonts=None, words=None) -> str | None:
    """Text whose width / column width lies in [k-1+0.2, k-0.2] for every font in `fonts`
    (default: the given font only): 'well inside a k-line band'.  None if impossible."""
    fonts = fonts or [(font, size)]
    if k <= 1:
        # must stay below 0.8 of the column for all fonts
        if all(width_in(prefix, f, s) / col_width_in <= 0.8 for f, s in fonts):
            return prefix
        return None
    words = words or WORDS
    text = prefix
    i = 0
    target = (k - 0.5) * col_width_in
    f0, s0 = fonts[0]
    while width_in(text, f0, s0) < target and len(text) < 4000:
        text += (" " if text else "") + words[i % len(words)]
        i += 1
    for _ in range(40):
        ratios = [width_in(text, f, s) / col_width_in for f, s in fonts]
        if all(k - 1 + 0.2 <= r <= k - 0.2 for r in ratios):
            return text
        if max(ratios) > k - 0.2 and len(text) > len(prefix) + 1:
            text = text[:-1].rstrip()
        elif min(ratios) < k - 1 + 0.2:
            text += "x"
        else:
            return None
    return None
