"""Frozen reference tables taken from the pinned tree (DESIGN 3.4).

Oracles compare the library's *output* with these copies, never with the live modules, so a change
that corrupts a table entry is detected and the oracle never compares the implementation with itself.
"""
from __future__ import annotations

import functools
import hashlib
import json
import os

DATA = os.path.join(os.path.dirname(os.path.dirname(os.path.abspath(__file__))), "data")
SHA256 = {
    "latex_table": "997b6f533971f6c977362c09abcc0b6524b2eae11953810513a6693933ca1f78",
    "color_table": "0bc9f4a893e63f7a9c27a42beb7d47c4f26b420f55e50ab438daf28e28076fa8",
    "font_table": "0f89ee23cad4763089249f2bcc939b8b20fb396c2d62cb02baedaccbbbea6bd0",
}


@functools.lru_cache(None)
def _load(name):
    with open(os.path.join(DATA, name + ".json"), "rb") as f:
        raw = f.read()
    if hashlib.sha256(raw).hexdigest() != SHA256[name]:
        raise RuntimeError(f"frozen table {name} does not match its recorded sha256")
    return json.loads(raw)


def verify():
    for n in SHA256:
        _load(n)


def latex_table() -> dict:
    """command -> Unicode character"""
    return {k: chr(v) for k, v in _load("latex_table").items()}


def color_rgb(name):
    return tuple(_load("color_table")[name]["rgb"])


def color_names():
    return sorted(_load("color_table"))


def color_index(name):
    return _load("color_table")[name]["index"]


def font_name(number: int) -> str:
    return _load("font_table")[str(number)]["name"]


def font_file(number: int) -> str:
    return _load("font_table")[str(number)]["file"]
