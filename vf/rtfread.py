"""Independent RTF reader used by the oracles.

Written from the RTF 1.9 specification, not from rtflite's emitters.  It turns the bytes of a
document into  Doc -> pages -> blocks (Para | Row | Pict)  with character / paragraph / cell
properties, and doubles as the lexical + structural validator (``Doc.lex`` and ``Doc.anom``).

Only the part of RTF that a table/figure report can contain is interpreted; unknown control words
are kept as events on the text container they occur in (they are *not* errors: vocabulary is not
lexical validity).
"""
from __future__ import annotations

import re
from dataclasses import dataclass, field

TOK = re.compile(
    rb"\\([a-zA-Z]+)(-?\d+)? ?|\\'([0-9a-fA-F]{2})|\\([^a-zA-Z])|([{}])|([^\\{}]+)", re.S
)

BORDER_STYLES = {
    "brdrs": "single", "brdrdb": "double", "brdrth": "thick", "brdrdot": "dotted",
    "brdrdash": "dashed", "brdrdashsm": "small-dash", "brdrdashd": "dash-dotted",
    "brdrdashdd": "dash-dot-dotted", "brdrtriple": "triple", "brdrwavy": "wavy",
    "brdrwavydb": "double-wavy", "brdrengrave": "engraved", "brdremboss": "embossed",
    "brdrframe": "frame",
}
GEOM = ("paperw", "paperh", "margl", "margr", "margt", "margb", "headery", "footery", "landscape")
CHAR_NUM = ("f", "fs", "cf", "cb", "chcbpat", "chshdng")
CHAR_TOGGLE = ("b", "i", "ul", "strike", "super", "sub")
PARA_NUM = ("fi", "li", "ri", "sb", "sa", "sl", "slmult")
IGNORED_WORDS = {
    "rtf", "ansi", "deff", "deflang", "froman", "fswiss", "fmodern", "ftech", "fnil", "fscript",
    "fdecor", "fbidi", "fcharset", "fprq", "field", "fldrslt", "intbl", "ansicpg", "nosupersub",
    "plain",
}
CONTROL_SYMBOLS = set("~-_:|*\\{}")


@dataclass
class Text:
    """A text container (paragraph or cell content)."""

    text: str = ""
    events: list = field(default_factory=list)   # ("t", str) | ("cw", word, param) | ("field", inst)
    runs: list = field(default_factory=list)     # (text, cprops)
    cprops: dict = field(default_factory=dict)   # character properties of the first character
    pprops: dict = field(default_factory=dict)   # paragraph properties


@dataclass
class Cell(Text):
    cellx: int = 0
    borders: dict = field(default_factory=dict)  # side -> {"style","w","cf"}
    valign: str = ""
    merge: str = ""


@dataclass
class Para(Text):
    kind: str = "para"


@dataclass
class Row:
    cells: list
    rowprops: dict
    kind: str = "row"


@dataclass
class Pict:
    kw: dict
    blip: str
    data: bytes
    hex_ok: bool
    pprops: dict
    kind: str = "pict"


@dataclass
class Doc:
    fonts: dict = field(default_factory=dict)      # number -> name
    font_meta: dict = field(default_factory=dict)  # number -> {charset, family}
    colors: list = field(default_factory=list)     # index -> (r,g,b) | None (auto)
    has_colortbl: bool = False
    colortbls: list = field(default_factory=list)  # every {\\colortbl} group in order of appearance
    pages: list = field(default_factory=lambda: [[]])
    geom: list = field(default_factory=lambda: [{}])   # per page: geometry keywords seen on it
    page_breaks: list = field(default_factory=list)     # byte offsets of \page
    headers: list = field(default_factory=list)    # list of block lists
    footers: list = field(default_factory=list)
    lex: list = field(default_factory=list)        # lexical errors
    anom: list = field(default_factory=list)       # structural anomalies
    top_groups: int = 0
    starts_with_rtf1: bool = False
    trailing: bytes = b""
    ansicpg: int = 1252
    words: dict = field(default_factory=dict)      # control word -> count (whole document)

    def ok(self) -> bool:
        return not self.lex and not self.anom


class _Builder:
    def __init__(self):
        self.cur: Text | None = None
        self.cur_started = False
        self.last_group_cprops = None


def read(data: str | bytes, track_colortbl: bool = False) -> Doc:
    """track_colortbl: a document may contain several {\\colortbl} groups (assemble_rtf keeps each input's table where the
    input starts; a later table replaces the earlier one for what follows).  With the flag every character-property
    snapshot carries "_ct" = number of colour tables seen so far, and doc.colortbls holds the tables in order."""
    if isinstance(data, str):
        data = data.encode("utf-8")
    s = data
    doc = Doc()
    doc.starts_with_rtf1 = s.startswith(b"{\\rtf1")
    codec = "cp1252"

    stack: list = []
    st = {"dest": None, "uc": 1, "c": {}, "p": {}, "sink": "body", "star": False}
    pos = 0
    skip = 0
    pending_high = None

    # per-sink text builders
    builders = {"body": _Builder()}
    hf_lists: dict = {}
    # row state (body only)
    row = {"defs": None, "props": {}, "pend": None, "side": None, "contents": []}
    color_cur: dict = {}
    font_cur = {"n": None, "name": "", "meta": {}}
    pict = None
    fld = None

    def sink_list():
        if st["sink"] == "body":
            return doc.pages[-1]
        return hf_lists[st["sink"]]

    def builder() -> _Builder:
        return builders.setdefault(st["sink"], _Builder())

    def container() -> Text:
        b = builder()
        if b.cur is None:
            b.cur = Text()
            b.cur_started = False
        return b.cur

    def emit_text(ch: str):
        nonlocal pict
        d = st["dest"]
        if d == "fonttbl":
            font_cur["name"] += ch
            while ";" in font_cur["name"]:
                name, _, rest = font_cur["name"].partition(";")
                if font_cur["n"] is not None:
                    doc.fonts[font_cur["n"]] = name.strip()
                    doc.font_meta[font_cur["n"]] = dict(font_cur["meta"])
                font_cur["n"], font_cur["name"], font_cur["meta"] = None, rest, {}
            return
        if d == "colortbl":
            for c in ch:
                if c == ";":
                    if color_cur:
                        doc.colors.append((color_cur.get("red", 0), color_cur.get("green", 0), color_cur.get("blue", 0)))
                    else:
                        doc.colors.append(None)
                    if doc.colortbls:
                        doc.colortbls[-1].append(doc.colors[-1])
                    color_cur.clear()
                elif not c.isspace():
                    doc.anom.append(("colortbl_text", c))
            return
        if d == "pict":
            pict["hex"].append(ch)
            return
        if d == "fldinst":
            fld.append(ch)
            return
        if d == "ign":
            return
        if st["sink"] == "body" and d is None and not stack:
            doc.anom.append(("text_outside_group", ch[:10]))
            return
        t = start_container()
        t.events.append(("t", ch, (bool(st["c"].get("super")), bool(st["c"].get("sub")))))
        if t.runs and t.runs[-1][1] == st["c"]:
            t.runs[-1] = (t.runs[-1][0] + ch, t.runs[-1][1])
        else:
            t.runs.append((ch, dict(st["c"])))

    def start_container() -> Text:
        t = container()
        b = builder()
        if not b.cur_started:
            t.cprops = dict(st["c"])
            t.pprops = dict(st["p"])
            b.cur_started = True
        return t

    def emit_event(ev):
        if st["dest"] in ("fonttbl", "colortbl", "pict", "fldinst", "ign"):
            return
        container().events.append(ev)

    def flush(cls):
        b = builder()
        t = b.cur or Text()
        if not b.cur_started:
            t.cprops = dict(b.last_group_cprops if b.last_group_cprops is not None else st["c"])
            t.pprops = dict(st["p"])
        t.text = text_of_events(t.events)
        b.cur = None
        b.cur_started = False
        b.last_group_cprops = None
        out = cls()
        out.text, out.events, out.runs, out.cprops, out.pprops = t.text, t.events, t.runs, t.cprops, t.pprops
        return out

    def end_pict():
        nonlocal pict
        hx = re.sub(r"\s+", "", "".join(pict["hex"]))
        ok = len(hx) % 2 == 0 and re.fullmatch(r"[0-9a-fA-F]*", hx) is not None
        sink_list().append(Pict(kw=pict["kw"], blip=pict["blip"], data=bytes.fromhex(hx) if ok else b"",
                                hex_ok=ok, pprops=dict(st["p"])))
        pict = None

    for m in TOK.finditer(s):
        if m.start() != pos:
            doc.lex.append(("lex_gap", pos, s[pos:m.start()][:12]))
        pos = m.end()
        word, param, hexb, sym, brace, text = m.groups()

        if brace is not None or word is not None:
            if skip:
                doc.lex.append(("u_fallback_short", m.start(), skip))
                skip = 0

        if brace == b"{":
            if not stack:
                doc.top_groups += 1
                if doc.top_groups > 1:
                    doc.anom.append(("second_top_level_group", m.start()))
            stack.append({k: (dict(v) if isinstance(v, dict) else v) for k, v in st.items()})
            st["star"] = False
            continue
        if brace == b"}":
            if not stack:
                doc.anom.append(("unbalanced_close", m.start()))
                continue
            top = stack[-1]
            closing = st["dest"]
            if closing in ("header", "footer") and top["dest"] not in ("header", "footer"):
                b = builders.get(st["sink"])
                if b is not None and b.cur is not None and b.cur.events:
                    hf_lists[st["sink"]].append(flush(Para))
            b = builder()
            if not b.cur_started:
                b.last_group_cprops = dict(st["c"])
            stack.pop()
            st.update(top)
            if closing == "pict" and st["dest"] != "pict":
                end_pict()
            elif closing == "fldinst" and st["dest"] != "fldinst":
                start_container()
                container().events.append(("field", "".join(fld).strip()))
            _after_close(doc, stack, s, m)
            continue

        if text is not None:
            t = text.replace(b"\r", b"").replace(b"\n", b"")
            while skip and t:
                t = t[1:]
                skip -= 1
            if t:
                try:
                    emit_text(t.decode("ascii"))
                except UnicodeDecodeError:
                    emit_text(t.decode(codec, "replace"))
            continue
        if hexb is not None:
            if skip:
                skip -= 1
            else:
                emit_text(bytes([int(hexb, 16)]).decode(codec, "replace"))
            continue
        if sym is not None:
            sy = sym.decode("latin1")
            if skip and sy != "*":
                skip -= 1
                continue
            if sy == "*":
                st["star"] = True
            elif sy in "\\{}":
                emit_text(sy)
            elif sy == "~":
                emit_text("\u00a0")
            elif sy == "_":
                emit_text("\u2011")
            elif sy == "-":
                pass
            elif sy in ":|":
                pass
            elif sy in "\r\n":
                emit_event(("cw", "par", None))
            elif sy == "'":
                doc.lex.append(("bad_hex_escape", m.start()))
            else:
                doc.lex.append(("bad_control_symbol", m.start(), sy))
            continue

        # control word
        w = word.decode("ascii")
        n = int(param) if param is not None else None
        doc.words[w] = doc.words.get(w, 0) + 1
        if len(w) > 32:
            doc.lex.append(("control_word_too_long", m.start(), w[:40]))
        if n is not None and not (-2147483648 <= n <= 2147483647):
            doc.lex.append(("param_out_of_range", m.start(), w, n))
        if st["star"]:
            st["star"] = False
            if w == "fldinst":
                st["dest"] = "fldinst"
                fld = []
            else:
                st["dest"] = "ign"
            continue
        if st["dest"] == "ign":
            continue

        if w == "u":
            if n is None:
                doc.lex.append(("u_without_param", m.start()))
                continue
            if not (-32768 <= n <= 32767):
                doc.lex.append(("u_out_of_range", m.start(), n))
            cu = n + 65536 if n < 0 else n
            skip = st["uc"]
            if 0xD800 <= cu < 0xDC00:
                if pending_high is not None:
                    doc.lex.append(("lone_surrogate", m.start(), pending_high))
                pending_high = cu
                continue
            if 0xDC00 <= cu < 0xE000:
                if pending_high is None:
                    doc.lex.append(("lone_surrogate", m.start(), cu))
                else:
                    emit_text(chr(0x10000 + ((pending_high - 0xD800) << 10) + (cu - 0xDC00)))
                    pending_high = None
                continue
            if pending_high is not None:
                doc.lex.append(("lone_surrogate", m.start(), pending_high))
                pending_high = None
            if 0 <= cu <= 0x10FFFF:
                emit_text(chr(cu))
            else:
                doc.lex.append(("u_not_a_code_unit", m.start(), n))
            continue
        if w == "uc":
            if n is None or n < 0:
                doc.lex.append(("bad_uc", m.start(), n))
            else:
                st["uc"] = n
            continue
        if w == "ansicpg" and n:
            doc.ansicpg = n
            try:
                "".encode(f"cp{n}")
                codec = f"cp{n}"
            except LookupError:
                pass
            continue
        if w == "fonttbl":
            st["dest"] = "fonttbl"
            continue
        if w == "colortbl":
            st["dest"] = "colortbl"
            doc.has_colortbl = True
            doc.colortbls.append([])
            if track_colortbl:
                for frame in stack:
                    frame["c"]["_ct"] = len(doc.colortbls)
                st["c"]["_ct"] = len(doc.colortbls)
            continue
        if w in ("header", "footer"):
            st["dest"] = w
            key = f"{w}{len(doc.headers) + len(doc.footers)}"
            st["sink"] = key
            hf_lists[key] = []
            (doc.headers if w == "header" else doc.footers).append(hf_lists[key])
            st["c"], st["p"] = {}, {}
            continue
        if w == "pict":
            st["dest"] = "pict"
            pict = {"hex": [], "kw": {}, "blip": ""}
            continue
        if w == "fldinst":
            st["dest"] = "fldinst"
            fld = []
            continue
        if st["dest"] == "pict":
            if w.endswith("blip") or w in ("wmetafile", "dibitmap", "wbitmap", "macpict", "pmmetafile"):
                pict["blip"] = w
            pict["kw"][w] = n
            continue
        if st["dest"] == "fonttbl":
            if w == "f":
                font_cur["n"] = n
            elif w == "fcharset":
                font_cur["meta"]["charset"] = n
            elif w in ("froman", "fswiss", "fmodern", "ftech", "fnil", "fscript", "fdecor", "fbidi", "ffroman"):
                font_cur["meta"]["family"] = w
            continue
        if st["dest"] == "colortbl":
            if w in ("red", "green", "blue"):
                color_cur[w] = n
            continue
        if st["dest"] == "fldinst":
            continue

        if w in GEOM:
            if st["sink"] == "body":
                doc.geom[-1][w] = n if n is not None else True
            continue
        if w == "page":
            b = builder()
            if b.cur is not None and any(e[0] == "t" for e in b.cur.events):
                sink_list().append(flush(Para))
            else:
                b.cur = None
                b.cur_started = False
            if st["sink"] == "body":
                doc.pages.append([])
                doc.geom.append({})
                doc.page_breaks.append(m.start())
            continue
        if w == "pard":
            st["p"] = {}
            continue
        if w == "par":
            sink_list().append(flush(Para))
            continue
        if w == "sect":
            continue
        if w == "trowd":
            if row["defs"] is not None and (row["defs"] or row["contents"]):
                doc.anom.append(("trowd_without_row", m.start()))
            row.update(defs=[], props={}, pend=Cell(), side=None, contents=[])
            continue
        if w in ("trgaph", "trleft", "trql", "trqc", "trqr", "trrh"):
            row["props"][w] = n if n is not None else True
            continue
        if w.startswith("clbrdr") and len(w) == 7:
            if row["pend"] is None:
                doc.anom.append(("cell_border_outside_row", m.start()))
                continue
            row["side"] = w[-1]
            row["pend"].borders[row["side"]] = {"style": "", "w": None, "cf": None}
            continue
        if w in BORDER_STYLES:
            if row["pend"] is not None and row["side"]:
                row["pend"].borders[row["side"]]["style"] = BORDER_STYLES[w]
            continue
        if w == "brdrw":
            if row["pend"] is not None and row["side"]:
                row["pend"].borders[row["side"]]["w"] = n
            continue
        if w == "brdrcf":
            if row["pend"] is not None and row["side"]:
                row["pend"].borders[row["side"]]["cf"] = n
            continue
        if w in ("clvertalt", "clvertalc", "clvertalb"):
            if row["pend"] is not None:
                row["pend"].valign = w[-1]
            continue
        if w in ("clvmgf", "clvmrg"):
            if row["pend"] is not None:
                row["pend"].merge = w
            continue
        if w == "cellx":
            if row["pend"] is None or row["defs"] is None:
                doc.anom.append(("cellx_outside_row", m.start()))
                continue
            row["pend"].cellx = n if n is not None else 0
            row["defs"].append(row["pend"])
            row["pend"] = Cell()
            row["side"] = None
            continue
        if w == "cell":
            if row["defs"] is None:
                doc.anom.append(("cell_without_row_definition", m.start()))
                flush(Cell)
                continue
            row["contents"].append(flush(Cell))
            continue
        if w == "row":
            defs, contents = row["defs"], row["contents"]
            if defs is None:
                doc.anom.append(("row_without_trowd", m.start()))
            elif len(defs) != len(contents) or not defs:
                doc.anom.append(("row_cell_count_mismatch", m.start(), len(defs), len(contents)))
            else:
                prev = None
                for d_, c_ in zip(defs, contents):
                    d_.text, d_.events, d_.runs, d_.cprops, d_.pprops = c_.text, c_.events, c_.runs, c_.cprops, c_.pprops
                    if d_.cellx <= 0 or (prev is not None and d_.cellx < prev):
                        doc.anom.append(("cellx_not_positive_nondecreasing", m.start(), [x.cellx for x in defs]))
                        break
                    prev = d_.cellx
                sink_list().append(Row(cells=defs, rowprops=row["props"]))
            row.update(defs=None, props={}, pend=None, side=None, contents=[])
            continue
        if w in ("ql", "qc", "qr", "qd", "qj"):
            st["p"]["just"] = w[1]
            continue
        if w in PARA_NUM:
            st["p"][w] = n if n is not None else 0
            continue
        if w == "hyphpar":
            st["p"]["hyphpar"] = 1 if n is None else n
            continue
        if w in CHAR_NUM:
            st["c"][w] = n
            continue
        if w in CHAR_TOGGLE:
            st["c"][w] = (n != 0) if n is not None else True
            continue
        if w == "line":
            if st["dest"] is None or st["dest"] in ("header", "footer"):
                t = start_container()
                t.events.append(("cw", "line", None))
                t.runs.append(("\n", dict(st["c"])))
            continue
        if w == "tab":
            emit_text("\t")
            continue
        if w in IGNORED_WORDS:
            continue
        emit_event(("cw", w, n))

    if pos != len(s):
        doc.lex.append(("lex_gap", pos, s[pos:][:12]))
    if stack:
        doc.anom.append(("unbalanced_open", len(stack)))
    if skip:
        doc.lex.append(("u_fallback_short", len(s), skip))
    if pending_high is not None:
        doc.lex.append(("lone_surrogate", len(s), pending_high))
    if row["defs"] is not None and (row["defs"] or row["contents"]):
        doc.anom.append(("trowd_without_row", len(s)))
    b = builders["body"]
    if b.cur is not None and any(e[0] == "t" for e in b.cur.events):
        doc.anom.append(("text_without_paragraph_end", "".join(e[1] for e in b.cur.events if e[0] == "t")[:20]))
    if doc.top_groups == 0:
        doc.anom.append(("no_top_level_group",))
    if not doc.starts_with_rtf1:
        doc.anom.append(("missing_rtf_signature", s[:12]))
    return doc


def _after_close(doc: Doc, stack, s: bytes, m):
    if not stack:
        rest = s[m.end():]
        nxt = rest.lstrip(b"\r\n")
        if nxt:
            if not doc.trailing:
                doc.trailing = nxt[:40]
                doc.anom.append(("content_after_closing_brace", nxt[:20]))


def text_of_events(events) -> str:
    out = []
    for e in events:
        if e[0] == "t":
            out.append(e[1])
        elif e[0] == "cw" and e[1] == "line":
            out.append("\n")
    return "".join(out)
