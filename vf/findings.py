"""KNOWN_FINDINGS.txt: read-only at run time.

    finding: property=<id> sig=<clause>/<signature> replay=replays/known/<file>.json :: <what fails>
    fixed: property=<id> <commit> <what failed>

``finding`` lines identify a genuine, unrepaired defect by signature (clause + specific input class,
call site or history).  ``fixed`` lines are documentation only and suppress nothing.
"""
from __future__ import annotations

import json
import os
import re
from dataclasses import dataclass

VERIF = os.path.dirname(os.path.dirname(os.path.abspath(__file__)))
PATH = os.path.join(VERIF, "KNOWN_FINDINGS.txt")
LINE = re.compile(r"^finding:\s+property=(\S+)\s+sig=(\S+)\s+replay=(\S+)\s+::\s+(.*)$")


@dataclass
class Finding:
    pid: str
    sig: str
    replay: str
    what: str


def load(pid: str | None = None):
    out = []
    if not os.path.exists(PATH):
        return out
    with open(PATH) as f:
        for line in f:
            m = LINE.match(line.strip())
            if m and (pid is None or m.group(1) == pid):
                out.append(Finding(*m.groups()))
    return out


def reproduces(prop, finding: Finding) -> bool:
    """Re-run the pinned reproducer through the oracle; True iff it still fails with this signature."""
    path = os.path.join(VERIF, finding.replay)
    if finding.replay in ("-", "none") or not os.path.exists(path):
        return False
    with open(path) as f:
        payload = json.load(f)
    case = payload["case"] if isinstance(payload, dict) and "case" in payload else payload
    try:
        res = prop.check(case)
    except Exception:
        return False
    hook = getattr(prop, "match_known", None)
    for fl in res.failures:
        if hook is not None:
            if hook(fl, {finding.sig}) == finding.sig:
                return True
        elif fl.key == finding.sig:
            return True
    return False
