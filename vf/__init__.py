"""Verification framework for pharmaverse/rtflite (property-based testing / fuzzing)."""
