"""Deterministic multi-thread scheduler: the harness owns the schedule (DESIGN C15).

Every worker installs a sys.settrace function that counts `call` events in files of the library
(optionally also `line` events inside the modules that own process-global state).  A baton
(condition variable) guarantees that exactly one worker runs at a time; a worker hands the baton
to the next unfinished worker exactly when its counter reaches a preemption point.  The resulting
interleaving is a pure function of the schedule, independent of the GIL's own switching.
"""
from __future__ import annotations

import sys
import threading

LINE_FILES = ("color_service.py", "registry.py", "converter.py", "text_conversion_service.py")


class Baton:
    def __init__(self, n, preempt):
        self.n = n
        self.preempt = preempt            # tid -> set(count)
        self.turn = 0
        self.cv = threading.Condition()
        self.done = [False] * n
        self.started = [False] * n
        self.cnt = [0] * n
        self.fired_inside = 0             # preemptions that let another unfinished thread run
        self.trace = []

    def wait_turn(self, tid):
        with self.cv:
            while self.turn != tid:
                self.cv.wait()
            self.started[tid] = True

    def yield_(self, tid):
        with self.cv:
            nxt = [(tid + i) % self.n for i in range(1, self.n) if not self.done[(tid + i) % self.n]]
            if not nxt:
                return
            self.fired_inside += 1
            self.trace.append((tid, self.cnt[tid], nxt[0]))
            self.turn = nxt[0]
            self.cv.notify_all()
            while self.turn != tid:
                self.cv.wait()

    def finish(self, tid):
        with self.cv:
            self.done[tid] = True
            nxt = [(tid + i) % self.n for i in range(1, self.n) if not self.done[(tid + i) % self.n]]
            if nxt:
                self.turn = nxt[0]
                self.cv.notify_all()


def run_schedule(fns, preempt, lines=False, timeout=120):
    """fns: list of zero-argument callables (one per thread). preempt: list of (tid, count).
    Returns (results, counts, fired_inside, hung)."""
    n = len(fns)
    pre = {}
    for tid, k in preempt:
        pre.setdefault(int(tid), set()).add(int(k))
    bat = Baton(n, pre)
    out = [None] * n

    def worker(tid):
        mine = pre.get(tid, ())

        def local(frame, event, arg):
            if event == "line":
                bat.cnt[tid] += 1
                if bat.cnt[tid] in mine:
                    bat.yield_(tid)
            return local

        def tr(frame, event, arg):
            if event == "call":
                fn = frame.f_code.co_filename
                if "/rtflite/" in fn:
                    bat.cnt[tid] += 1
                    if bat.cnt[tid] in mine:
                        bat.yield_(tid)
                    if lines and fn.endswith(LINE_FILES):
                        return local
            return None

        bat.wait_turn(tid)
        sys.settrace(tr)
        try:
            out[tid] = ("ok", fns[tid]())
        except BaseException as e:  # noqa: BLE001 - reported as a failure of the property
            out[tid] = ("exc", f"{type(e).__name__}: {str(e)[:200]}")
        finally:
            sys.settrace(None)
            bat.finish(tid)

    ts = [threading.Thread(target=worker, args=(i,), daemon=True) for i in range(n)]
    for t in ts:
        t.start()
    hung = False
    for t in ts:
        t.join(timeout)
        if t.is_alive():
            hung = True
    return out, list(bat.cnt), bat.fired_inside, hung
