"""JSON recipes -> rtflite objects.  The only module that touches the rtflite construction API.

Recipe (all keys optional unless noted):

{ "kind": "table" | "multi" | "figure",
  "page": {RTFPage kwargs},
  "title" | "subline" | "page_header" | "page_footer": null | {"text": [...], **TextAttributes kwargs}
        ("text" missing on page_header -> library default text),
  "footnote" | "source": null | {"text": [...], "as_table": bool, **kwargs},
  "sections": [ {"df": {"cols": [{"name","dtype","values"}]},
                 "body": {RTFBody kwargs},
                 "headers": "default" | "none" | [ {"text": [...]|null, **kwargs} | null ]} ],
  "header_layout": "flat" | "nested"   (multi only),
  "figure": {"files": [{"suffix": ".png", "hex": "..."}], "fig_width":..., "fig_height":..., "fig_align":...},
  "share": {...}  (C14 / C08 histories; interpreted by those properties)
}

Attribute values are plain JSON; a per-row *tuple* is written {"t": [...]}.
"""
from __future__ import annotations

import os
import tempfile
from dataclasses import dataclass, field

import polars as pl

import rtflite as rtf

DTYPES = {"str": pl.Utf8, "int": pl.Int64, "float": pl.Float64, "bool": pl.Boolean, "cat": pl.Categorical, "null": pl.Null}


def dec(v):
    """Decode JSON attribute value (tuple marker)."""
    if isinstance(v, dict) and set(v) == {"t"}:
        return tuple(dec(x) for x in v["t"])
    if isinstance(v, list):
        return [dec(x) for x in v]
    return v


def make_df(spec) -> pl.DataFrame:
    cols = spec["cols"]
    data = {c["name"]: c["values"] for c in cols}
    schema = {c["name"]: DTYPES[c["dtype"]] for c in cols}
    return pl.DataFrame(data, schema=schema)


def display(v) -> str:
    """Reference display text of a value (empty for null)."""
    return "" if v is None else str(v)


@dataclass
class Built:
    doc: object
    dfs: list
    recipe: dict
    files: list = field(default_factory=list)
    parts: dict = field(default_factory=dict)


def _kw(d, skip=()):
    return {k: dec(v) for k, v in d.items() if k not in skip}


def make_text_component(cls, spec):
    if spec is None:
        return None
    return cls(**_kw(spec))


def make_header(spec):
    if spec is None:
        return None
    return rtf.RTFColumnHeader(**_kw(spec))


def make_headers(hspec):
    if hspec == "default":
        return None  # use library default
    if hspec == "none":
        return []
    return [make_header(h) for h in hspec]


def write_figures(fig, workdir=None):
    workdir = workdir or tempfile.mkdtemp(prefix="vf_fig_")
    paths = []
    for i, f in enumerate(fig["files"]):
        p = os.path.join(workdir, f"{f.get('stem', 'fig%d' % i)}{f['suffix']}")
        if f.get("link_target") is not None:
            # the listed path is a symbolic link to a content-addressed store file whose own name has another suffix or none
            os.makedirs(os.path.join(workdir, "store"), exist_ok=True)
            target = os.path.join(workdir, "store", f"{f.get('stem', 'fig%d' % i)}_blob{f['link_target']}")
            with open(target, "wb") as fh:
                fh.write(bytes.fromhex(f["hex"]))
            if os.path.lexists(p):
                os.remove(p)
            os.symlink(target, p)
            paths.append(p)
            continue
        if os.path.islink(p):
            os.remove(p)
        with open(p, "wb") as fh:
            fh.write(bytes.fromhex(f["hex"]))
        paths.append(p)
    return paths, workdir


def build_kwargs(recipe, workdir=None):
    """The user's objects: keyword arguments for RTFDocument (plus dfs and figure files)."""
    kind = recipe.get("kind", "table")
    kw = {}
    if recipe.get("page") is not None:
        kw["rtf_page"] = rtf.RTFPage(**_kw(recipe["page"]))
    for key, cls, arg in (
        ("title", rtf.RTFTitle, "rtf_title"),
        ("subline", rtf.RTFSubline, "rtf_subline"),
        ("page_header", rtf.RTFPageHeader, "rtf_page_header"),
        ("page_footer", rtf.RTFPageFooter, "rtf_page_footer"),
        ("footnote", rtf.RTFFootnote, "rtf_footnote"),
        ("source", rtf.RTFSource, "rtf_source"),
    ):
        if recipe.get(key) is not None:
            kw[arg] = make_text_component(cls, recipe[key])
    files = []
    dfs = []
    if kind == "figure":
        fig = recipe["figure"]
        paths, wd = write_figures(fig, workdir)
        files = paths
        fkw = _kw(fig, skip=("files", "single_path"))
        kw["rtf_figure"] = rtf.RTFFigure(figures=paths if not fig.get("single_path") else paths[0], **fkw)
        return kw, dfs, files
    secs = recipe["sections"]
    if kind == "table":
        sec = secs[0]
        df = make_df(sec["df"])
        dfs = [df]
        kw["df"] = df
        kw["rtf_body"] = rtf.RTFBody(**_kw(sec.get("body", {})))
        hs = make_headers(sec.get("headers", "default"))
        if hs is not None:
            kw["rtf_column_header"] = hs
    else:
        dfs = [make_df(s["df"]) for s in secs]
        kw["df"] = list(dfs)
        if recipe.get("share_body"):
            # one RTFBody OBJECT used for every section (the sections' body specs are equal)
            shared_body = rtf.RTFBody(**_kw(secs[0].get("body", {})))
            kw["rtf_body"] = [shared_body for _ in secs]
        else:
            kw["rtf_body"] = [rtf.RTFBody(**_kw(s.get("body", {}))) for s in secs]
        layout = recipe.get("header_layout", "nested")
        if layout == "nested":
            hl = []
            for s in secs:
                h = s.get("headers", "default")
                if h == "default":
                    hl.append([rtf.RTFColumnHeader()])
                elif h == "none":
                    hl.append([None])
                else:
                    hl.append([make_header(x) for x in h])
            kw["rtf_column_header"] = hl
        else:
            hs = make_headers(secs[0].get("headers", "default"))
            if hs is not None:
                kw["rtf_column_header"] = hs
    return kw, dfs, files


def build(recipe, workdir=None) -> Built:
    kw, dfs, files = build_kwargs(recipe, workdir)
    doc = rtf.RTFDocument(**kw)
    return Built(doc, dfs, recipe, files, kw)


# ---------------------------------------------------------------------------------------------
# Reference helpers shared by oracles (pure functions of the recipe, never of the library)

def body_of(sec):
    return sec.get("body", {})


def as_list(v):
    if v is None:
        return []
    return [v] if isinstance(v, str) else list(v)


def spanning(body) -> bool:
    """page_by values are shown as spanning rows (and their columns removed)."""
    return bool(body.get("page_by")) and (not body.get("new_page", False) or body.get("pageby_row", "column") != "column")


def removed_columns(sec) -> list:
    body = body_of(sec)
    rem = set(as_list(body.get("subline_by")))
    if spanning(body):
        rem |= set(as_list(body.get("page_by")))
    return [c["name"] for c in sec["df"]["cols"] if c["name"] in rem]


def displayed_columns(sec) -> list:
    rem = set(removed_columns(sec))
    return [c["name"] for c in sec["df"]["cols"] if c["name"] not in rem]


def nrows(sec) -> int:
    cols = sec["df"]["cols"]
    return len(cols[0]["values"]) if cols else 0


def column(sec, name):
    for c in sec["df"]["cols"]:
        if c["name"] == name:
            return c
    raise KeyError(name)


def expected_rows(sec) -> list:
    disp = displayed_columns(sec)
    cols = [column(sec, n)["values"] for n in disp]
    return [[display(col[i]) for col in cols] for i in range(nrows(sec))]
