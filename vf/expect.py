"""Reference semantics of attribute broadcasting, written from the documentation:
a scalar applies to every cell, a flat list is one value per column, a per-row tuple one value per
row, a nested list is a matrix; shorter vectors/matrices repeat cyclically."""
from __future__ import annotations

from .rtfread import Text


def nested(v):
    """JSON attribute value -> nested list (rows x cols)."""
    if isinstance(v, dict) and set(v) == {"t"}:
        return [[x] for x in v["t"]]
    if isinstance(v, list):
        if v and all(isinstance(x, list) for x in v):
            return v
        return [v]
    return [[v]]


def attr_at(v, i, j, default=None):
    if v is None:
        return default
    m = nested(v)
    row = m[i % len(m)]
    return row[j % len(m[0])]


def text_attr_at(v, line, default=None):
    """Attributes of RTFTitle / RTFSubline / RTFPageHeader / RTFPageFooter: scalar or one value per line."""
    if v is None:
        return default
    if isinstance(v, list):
        return v[line % len(v)]
    return v


def line_runs(t: Text):
    """Split a text container's runs into lines (at \\line): list of (text, cprops of first run)."""
    lines = [["", None]]
    for txt, cp in t.runs:
        if txt == "\n":
            lines.append(["", None])
            continue
        if lines[-1][1] is None:
            lines[-1][1] = cp
        lines[-1][0] += txt
    return [(a, b if b is not None else t.cprops) for a, b in lines]
