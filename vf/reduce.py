"""Generic structural reductions of a JSON recipe (used by the bounded delta-debugger)."""
from __future__ import annotations

import copy
import re

COORD = re.compile(r"^r(\d+)c(\d+)")

OPTIONAL = ("title", "subline", "footnote", "source", "page_header", "page_footer")
STRUCTURAL_BODY = {"page_by", "subline_by", "group_by", "new_page", "pageby_row"}


def _drop_rows(sec, idxs):
    s = copy.deepcopy(sec)
    keep = [i for i in range(len(s["df"]["cols"][0]["values"])) if i not in idxs] if s["df"]["cols"] else []
    for c in s["df"]["cols"]:
        vals = [c["values"][i] for i in keep]
        if c["dtype"] == "str":   # keep coordinate tags r<i>c<j> consistent with the new row positions
            vals = [COORD.sub(lambda m, k=k: f"r{k}c{m.group(2)}", v) if isinstance(v, str) else v for k, v in enumerate(vals)]
        c["values"] = vals
    if isinstance(s.get("heights"), list):
        s["heights"] = [s["heights"][i] for i in keep if i < len(s["heights"])]
    return s


def generic_reductions(case):
    if not isinstance(case, dict) or "kind" not in case:
        return
    # fewer sections
    if case.get("kind") == "multi" and len(case["sections"]) > 2:
        for i in range(len(case["sections"])):
            c = copy.deepcopy(case)
            del c["sections"][i]
            yield c
    if case.get("kind") == "figure":
        files = case["figure"]["files"]
        if len(files) > 1:
            for i in range(len(files)):
                c = copy.deepcopy(case)
                del c["figure"]["files"][i]
                yield c
        for i, f in enumerate(files):
            if len(f["hex"]) > 80:
                c = copy.deepcopy(case)
                c["figure"]["files"][i]["hex"] = f["hex"][: (len(f["hex"]) // 4) * 2]
                yield c
    # optional components
    for k in OPTIONAL:
        if case.get(k) is not None:
            c = copy.deepcopy(case)
            c[k] = None
            yield c
    for k in OPTIONAL:
        comp = case.get(k)
        if isinstance(comp, dict):
            for a in list(comp):
                if a not in ("text", "as_table"):
                    c = copy.deepcopy(case)
                    del c[k][a]
                    yield c
            if isinstance(comp.get("text"), list) and len(comp["text"]) > 1:
                c = copy.deepcopy(case)
                c[k]["text"] = comp["text"][:1]
                yield c
    # page keys
    page = case.get("page") or {}
    for a in list(page):
        if a != "nrow":
            c = copy.deepcopy(case)
            del c["page"][a]
            yield c
    for si, sec in enumerate(case.get("sections", [])):
        cols = sec["df"]["cols"]
        n = len(cols[0]["values"]) if cols else 0
        # halves, then single rows
        if n > 1:
            for idxs in (set(range(n // 2, n)), set(range(0, n // 2))):
                c = copy.deepcopy(case)
                c["sections"][si] = _drop_rows(sec, idxs)
                yield c
        if 0 < n <= 24:
            for i in range(n - 1, -1, -1):
                c = copy.deepcopy(case)
                c["sections"][si] = _drop_rows(sec, {i})
                yield c
        body = sec.get("body", {})
        for a in list(body):
            if a not in STRUCTURAL_BODY:
                c = copy.deepcopy(case)
                del c["sections"][si]["body"][a]
                yield c
        if sec.get("headers") not in ("default", None):
            c = copy.deepcopy(case)
            c["sections"][si]["headers"] = "default"
            yield c
        if isinstance(sec.get("headers"), list):
            for hi, h in enumerate(sec["headers"]):
                if isinstance(h, dict):
                    for a in list(h):
                        if a != "text":
                            c = copy.deepcopy(case)
                            del c["sections"][si]["headers"][hi][a]
                            yield c
        # simplify cell values
        grouping = set()
        for key in ("page_by", "subline_by", "group_by"):
            v = body.get(key) or []
            grouping |= set([v] if isinstance(v, str) else v)
        for ci, col in enumerate(cols):
            if col["dtype"] == "str" and col["name"] not in grouping:
                for ri, v in enumerate(col["values"][:24]):
                    if isinstance(v, str) and len(v) > 3 and not v.startswith("@"):
                        m = COORD.match(v)
                        keep_len = m.end() if m else 0
                        if len(v) - keep_len <= 3:
                            continue
                        c = copy.deepcopy(case)
                        c["sections"][si]["df"]["cols"][ci]["values"][ri] = v[: keep_len + max(0, (len(v) - keep_len) // 2)]
                        yield c
    # nrow up (fewer pages) is not a reduction we try: pagination is usually essential
